"""Textbook SNES address arithmetic — independent of a816/cpu/mapping.py (never imports a816).

A *map* is a list of ranges.  A ROM range: banks first..last, window (32K high half or 64K), the
file offset of its first bank (always 0 here: mirrors alias their primary), `mirror_of` marks it
as a mirror.  A RAM range has no file offset.

  LoROM : ROM banks 00-6F (primary) / 80-CF (mirror), window 8000-FFFF, 32 KiB per bank; RAM 7E-7F
  HiROM : ROM banks 40-7D (primary; 7E/7F are RAM and take precedence) / C0-FF (mirror), 64 KiB
  LoROM2: ROM banks 80-FF, window 8000-FFFF, 32 KiB per bank (the legacy "second LoROM variant")

User maps add a third window kind, `half64`: 64 KiB of file per bank of which only 8000-FFFF is addressed through
this range (the HiROM banks 00-3F); the offset is bank-relative (bank x 0x10000 + address), a run never
crosses the end of a bank (what follows FFFF is outside the window, so that is left unspecified).
"""
from __future__ import annotations


class Range:
    __slots__ = ("first", "last", "win_lo", "win_hi", "size", "base", "partial", "ram", "mirror", "name")

    def __init__(self, first, last, win_lo, win_hi, ram=False, mirror=False, name="", stride=None):
        self.first, self.last = first, last
        self.win_lo, self.win_hi = win_lo, win_hi
        self.size = stride or (win_hi - win_lo + 1)  # file bytes per bank
        self.partial = self.size != win_hi - win_lo + 1  # the window covers only part of each bank's file bytes
        self.base = 0 if self.partial else win_lo  # in-bank address of the bank's first file byte
        self.ram = ram
        self.mirror = mirror
        self.name = name

    def has_bank(self, bank: int) -> bool:
        return self.first <= bank <= self.last


class BusModel:
    def __init__(self, ranges: list[Range]):
        # later ranges take precedence over earlier ones (HiROM: RAM 7E-7F over ROM 40-7F)
        self.ranges = ranges
        self.lookup: dict[int, Range] = {}
        for r in ranges:
            for b in range(r.first, r.last + 1):
                self.lookup[b] = r

    def range_of(self, addr: int) -> Range | None:
        if addr < 0 or addr > 0xFFFFFF:
            return None
        return self.lookup.get(addr >> 16)

    def kind(self, addr: int) -> str:
        """'rom' (in window), 'rom_out' (ROM bank, below the window), 'ram', 'unmapped'"""
        r = self.range_of(addr)
        if r is None:
            return "unmapped"
        if r.ram:
            return "ram"
        off = addr & 0xFFFF
        return "rom" if r.win_lo <= off <= r.win_hi else "rom_out"

    def physical(self, addr: int) -> int | None:
        r = self.range_of(addr)
        if r is None:
            raise KeyError(addr)
        if r.ram:
            return None
        return ((addr >> 16) - r.first) * r.size + ((addr & 0xFFFF) - r.base)

    def logical(self, r: Range, offset: int) -> int:
        return ((r.first + offset // r.size) << 16) | (r.base + offset % r.size)

    def advance(self, addr: int, n: int) -> int:
        r = self.range_of(addr)
        if r is None:
            raise KeyError(addr)
        if r.ram:
            return addr + n
        return self.logical(r, self.physical(addr) + n)

    def range_bytes(self, r: Range) -> int:
        """file bytes addressable through this range; banks that a later range shadows cut it"""
        n = 0
        for b in range(r.first, r.last + 1):
            if self.lookup.get(b) is not r:
                break
            n += r.size
        return n

    def room(self, addr: int) -> int:
        """how many bytes can be laid out from addr before leaving its mapped range"""
        r = self.range_of(addr)
        if r is None:
            return 0
        if r.ram:
            last = addr >> 16
            while self.lookup.get(last + 1) is r:
                last += 1
            return ((last + 1) << 16) - addr
        if r.partial:
            return min(self.range_bytes(r) - self.physical(addr), r.win_hi + 1 - (addr & 0xFFFF))
        return self.range_bytes(r) - self.physical(addr)

    def rom_ranges(self) -> list[Range]:
        return [r for r in self.ranges if not r.ram]

    def ram_ranges(self) -> list[Range]:
        return [r for r in self.ranges if r.ram]


def lorom() -> BusModel:
    return BusModel([
        Range(0x00, 0x6F, 0x8000, 0xFFFF, name="lo"),
        Range(0x80, 0xCF, 0x8000, 0xFFFF, mirror=True, name="lo_mirror"),
        Range(0x7E, 0x7F, 0x0000, 0xFFFF, ram=True, name="ram"),
    ])


def hirom() -> BusModel:
    return BusModel([
        Range(0x40, 0x7F, 0x0000, 0xFFFF, name="hi"),
        Range(0xC0, 0xFF, 0x0000, 0xFFFF, mirror=True, name="hi_mirror"),
        Range(0x7E, 0x7F, 0x0000, 0xFFFF, ram=True, name="ram"),
    ])


def lorom2() -> BusModel:
    return BusModel([
        Range(0x80, 0xFF, 0x8000, 0xFFFF, name="lo2"),
        Range(0x7E, 0x7F, 0x0000, 0xFFFF, ram=True, name="ram"),
    ])


def builtin(name: str) -> BusModel:
    return {"low": lorom, "high": hirom, "low2": lorom2}[name]()


# window kind -> (addr_range low, addr_range high, mask = file bytes per bank) as written in a `.map`
WINDOWS = {"hi32": (0x8000, 0xFFFF, 0x8000), "full64": (0x0000, 0xFFFF, 0x10000), "half64": (0x8000, 0xFFFF, 0x10000)}


def map_line(s: dict, style: int = 0) -> str:
    """the `.map` directive of one spec.  style 0: all values in hexadecimal; other styles mix decimal, binary and
    upper-case hexadecimal spellings of the same numbers (deterministic in `style`)"""
    lo, hi, mask = WINDOWS[s["win"]]
    n = [0]

    def num(v: int, width: int) -> str:
        n[0] += 1
        k = 0 if style == 0 else (style * 7 + n[0] * 3) % 4
        return f"0x{v:0{width}x}" if k == 0 else str(v) if k == 1 else f"0b{v:b}" if k == 2 else f"0x{v:0{width}X}"

    line = (f".map identifier={s['id']} bank_range={num(s['first'], 2)}, {num(s['last'], 2)} "
            f"addr_range={num(lo, 4)}, {num(hi, 4)} mask={num(mask, 1)}")
    if s.get("ram"):
        line += " writable=1"
    if s.get("mirror"):
        line += f" mirror_bank_range={num(s['mirror'][0], 2)}, {num(s['mirror'][1], 2)}"
    return line


def usermap(specs: list[dict]) -> BusModel:
    """specs: [{id, first, last, win: 'hi32'|'full64'|'half64', ram: bool, mirror: [first,last]|None}]"""
    ranges = []
    for s in specs:
        lo, hi, mask = WINDOWS[s["win"]]
        ranges.append(Range(s["first"], s["last"], lo, hi, ram=s.get("ram", False), name=str(s["id"]), stride=mask))
        if s.get("mirror"):
            ranges.append(Range(s["mirror"][0], s["mirror"][1], lo, hi, ram=s.get("ram", False), mirror=True,
                                name=str(s["id"]) + "_mirror", stride=mask))
    return BusModel(ranges)


# textbook legacy conversions (C20)
def rom_to_snes(offset: int, mode: str) -> int:
    if mode == "low":
        return ((offset >> 15) << 16) | 0x8000 | (offset & 0x7FFF)
    if mode == "low2":
        return (((offset >> 15) + 0x80) << 16) | 0x8000 | (offset & 0x7FFF)
    return 0xC00000 + offset


def selftest() -> None:
    lo, hi = lorom(), hirom()
    assert lo.physical(0x008000) == 0 and lo.physical(0x00FFFF) == 0x7FFF and lo.physical(0x018000) == 0x8000
    assert lo.physical(0x808000) == 0 and lo.physical(0x6FFFFF) == 0x37FFFF
    assert lo.physical(0x7E0000) is None and lo.kind(0x700000) == "unmapped" and lo.kind(0x001234) == "rom_out"
    assert lo.advance(0x00FFFF, 1) == 0x018000 and lo.advance(0x80FFFE, 3) == 0x818001
    assert lo.advance(0x7EFFFF, 1) == 0x7F0000
    assert hi.physical(0x400000) == 0 and hi.physical(0xC00000) == 0 and hi.physical(0xFFFFFF) == 0x3FFFFF
    assert hi.physical(0x7E0000) is None and hi.advance(0x40FFFF, 1) == 0x410000
    assert hi.room(0x7DFFFF) == 1 and hi.range_bytes(hi.ranges[0]) == 0x3E0000
    for m in (lo, hi, lorom2()):
        for r in m.rom_ranges():
            for off in (0, 1, r.size - 1, r.size, r.size + 1, 3 * r.size - 1):
                a = m.logical(r, off)
                assert m.physical(a) == off and m.range_of(a) is r
                assert m.advance(a, 0) == a and m.advance(m.advance(a, 5), 7) == m.advance(a, 12)
    h = usermap([{"id": 1, "first": 0, "last": 3, "win": "half64", "mirror": [0x80, 0x83]}])
    assert h.physical(0x008000) == 0x8000 and h.physical(0x81FFFF) == 0x1FFFF and h.advance(0x018000, 5) == 0x018005
    assert h.room(0x00FFFE) == 2 and h.kind(0x001234) == "rom_out" and h.range_bytes(h.ranges[0]) == 0x40000
    assert rom_to_snes(0x8000, "low") == 0x018000 and rom_to_snes(0x7FFF, "low2") == 0x80FFFF
