"""Independent longest-match table codec (never imports a816 / script).

A table is a list of (text, code bytes).  Encoding a string, at each position:
  1. `[0xN]` / `[0xNN]` (hex, either case) emits the raw byte and consumes the escape;
  2. otherwise the longest entry text that is a prefix of the remainder emits its code;
  3. otherwise the character is skipped.
"""
from __future__ import annotations

import re

_ESC = re.compile(r"\[0x([0-9a-fA-F]{1,2})\]")


def tokenize(entries: list[tuple[str, bytes]], s: str) -> list[tuple[str, object]]:
    """-> [("esc", byte) | ("entry", index) | ("skip", char)]"""
    by_len = sorted(range(len(entries)), key=lambda i: -len(entries[i][0]))
    out = []
    pos = 0
    while pos < len(s):
        m = _ESC.match(s, pos)
        if m:
            out.append(("esc", int(m.group(1), 16)))
            pos = m.end()
            continue
        for i in by_len:
            t = entries[i][0]
            if t and s.startswith(t, pos):
                out.append(("entry", i))
                pos += len(t)
                break
        else:
            out.append(("skip", s[pos]))
            pos += 1
    return out


def encode(entries: list[tuple[str, bytes]], s: str) -> bytes:
    out = bytearray()
    for kind, v in tokenize(entries, s):
        if kind == "esc":
            out.append(v)
        elif kind == "entry":
            out += entries[v][1]
    return bytes(out)


def matched_text(entries, s: str) -> str:
    return "".join(entries[v][0] for kind, v in tokenize(entries, s) if kind == "entry")


def overlaps(entries, s: str) -> bool:
    """some position where >= 2 entries match"""
    pos = 0
    for kind, v in tokenize(entries, s):
        if kind == "entry":
            n = sum(1 for t, _ in entries if t and s.startswith(t, pos))
            if n >= 2:
                return True
            pos += len(entries[v][0])
        elif kind == "esc":
            pos = s.index("]", pos) + 1
        else:
            pos += 1
    return False


def prefix_free(codes: list[bytes]) -> bool:
    for i, a in enumerate(codes):
        for j, b in enumerate(codes):
            if i != j and b.startswith(a):
                return False
    return True


def table_file(entries: list[tuple[str, bytes]]) -> str:
    # (a newline inside an entry text is spelled backslash + n in the file, as the table format has it)
    return "".join(f"{code.hex().upper() if i % 2 else code.hex()}={text.replace(chr(10), chr(92) + 'n')}\n" for i, (text, code) in enumerate(entries))


def parse_table_file(text: str) -> list[tuple[str, bytes]]:
    """HEX=text lines (as written by table_file)"""
    out = []
    for ln in text.split("\n"):
        if "=" in ln:
            code, t = ln.split("=", 1)
            out.append((t.replace(chr(92) + "n", chr(10)), bytes.fromhex(code)))
    return out


def selftest() -> None:
    e = [("a", b"\x01"), ("b", b"\x02"), ("ab", b"\x03"), ("abc", b"\x04\x05"), (" ", b"\xff")]
    assert encode(e, "abcab a") == b"\x04\x05\x03\xff\x01"
    assert encode(e, "zab[0x7f]b[0xG]") == b"\x03\x7f\x02"
    assert encode(e, "[0x1][0xAb]") == b"\x01\xab"
    assert tokenize(e, "[0x")[0] == ("skip", "[")
    assert matched_text(e, "xabcx b") == "abc b" and overlaps(e, "ab") and not overlaps(e, "b ")
    assert prefix_free([b"\x01", b"\x02\x01"]) and not prefix_free([b"\x01", b"\x01\x02"])
    assert table_file([("a\nb", b"\x07")]) == "07=a\\nb\n" and parse_table_file("07=a\\nb\n") == [("a\nb", b"\x07")]
