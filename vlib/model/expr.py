"""Expression trees, their conventional value and their concrete syntax (never imports a816).

tree := ["lit", value>=0, base]        base in d | x | X | b   (decimal, 0x lower, 0x UPPER digits, 0b)
      | ["id", name]
      | ["neg", tree] | ["inv", tree]   unary - and ~
      | ["bin", op, left, right]        op in * + - << >> & |
      | ["par", tree]                   redundant parentheses (value of the inner tree)

Conventional precedence, tightest first: unary, *, + -, << >>, &, | ; binary operators are left
associative.  ~v = v XOR mask of the smallest of 8/16/32 bits that holds v (0 <= v < 2^32).
"""
from __future__ import annotations

PREC = {"*": 5, "+": 4, "-": 4, "<<": 3, ">>": 3, "&": 2, "|": 1}
UNARY_PREC = 6
BINOPS = list(PREC)


class Undefined(Exception):
    """the tree has no conventional value (outside the property's domain)"""


def evaluate(t, env: dict[str, int] | None = None) -> int:
    k = t[0]
    if k == "lit":
        return t[1]
    if k == "id":
        if callable(env):
            return env(t[1])  # may raise KeyError: the caller decides what an unbound name means
        if env is None or t[1] not in env:
            raise Undefined(f"unbound {t[1]}")
        return env[t[1]]
    if k == "par":
        return evaluate(t[1], env)
    if k == "neg":
        return -evaluate(t[1], env)
    if k == "inv":
        v = evaluate(t[1], env)
        if v < 0 or v >= 1 << 32:
            raise Undefined("~ outside 0..2^32-1")
        bits = 8 if v < 1 << 8 else 16 if v < 1 << 16 else 32
        return v ^ ((1 << bits) - 1)
    if k == "bin":
        op = t[1]
        a, b = evaluate(t[2], env), evaluate(t[3], env)
        if op == "*":
            r = a * b
        elif op == "+":
            r = a + b
        elif op == "-":
            r = a - b
        elif op == "&":
            r = a & b
        elif op == "|":
            r = a | b
        elif op in ("<<", ">>"):
            if b < 0 or b > 8192:
                raise Undefined("shift count outside 0..8192")
            r = a << b if op == "<<" else a >> b
        else:
            raise ValueError(op)
        if abs(r) >= 1 << 9000:
            raise Undefined("magnitude")
        return r
    raise ValueError(k)


def prec(t) -> int:
    k = t[0]
    if k in ("lit", "id", "par"):
        return 9
    if k in ("neg", "inv"):
        return UNARY_PREC
    return PREC[t[1]]


def render_lit(v: int, base: str) -> str:
    if base == "d":
        return str(v)
    if base == "x":
        return "0x%x" % v
    if base == "X":
        return "0x%X" % v
    if base == "b":
        return "0b" + bin(v)[2:]
    raise ValueError(base)


def render(t, sp=None) -> str:
    """minimal parentheses for the conventional grammar.  sp: optional callable() -> str giving the
    spacing to insert at each gap (default: single space around binary operators)."""
    gap = sp if sp is not None else (lambda: " ")
    k = t[0]
    if k == "lit":
        return render_lit(t[1], t[2])
    if k == "id":
        return t[1]
    if k == "par":
        return "(" + (gap() if sp else "") + render(t[1], sp) + (gap() if sp else "") + ")"
    if k in ("neg", "inv"):
        inner = t[1]
        s = render(inner, sp)
        if prec(inner) < UNARY_PREC:
            s = "(" + s + ")"
        return ("-" if k == "neg" else "~") + (gap() if sp else "") + s
    op, l, r = t[1], t[2], t[3]
    ls, rs = render(l, sp), render(r, sp)
    if prec(l) < PREC[op]:
        ls = "(" + ls + ")"
    if prec(r) <= PREC[op]:
        rs = "(" + rs + ")"
    return ls + gap() + op + gap() + rs


def operators(t) -> list[str]:
    k = t[0]
    if k in ("lit", "id"):
        return []
    if k == "par":
        return ["()"] + operators(t[1])
    if k in ("neg", "inv"):
        return ["u" + ("-" if k == "neg" else "~")] + operators(t[1])
    return [t[1]] + operators(t[2]) + operators(t[3])


def idents(t) -> list[str]:
    k = t[0]
    if k == "lit":
        return []
    if k == "id":
        return [t[1]]
    if k in ("par", "neg", "inv"):
        return idents(t[1])
    return idents(t[2]) + idents(t[3])


def size(t) -> int:
    k = t[0]
    if k in ("lit", "id"):
        return 1
    if k in ("par", "neg", "inv"):
        return 1 + size(t[1])
    return 1 + size(t[2]) + size(t[3])


def nontrivial(t) -> bool:
    """>=2 distinct precedence levels, or a unary next to a binary, or stacked unaries, or a redundant
    parenthesis"""
    ops = operators(t)
    levels = {PREC[o] for o in ops if o in PREC}
    un = [o for o in ops if o.startswith("u")]
    stacked = _stacked(t)
    return len(levels) >= 2 or (bool(un) and bool(levels)) or stacked or "()" in ops


def _stacked(t) -> bool:
    k = t[0]
    if k in ("neg", "inv"):
        return t[1][0] in ("neg", "inv") or _stacked(t[1])
    if k == "par":
        return _stacked(t[1])
    if k == "bin":
        return _stacked(t[2]) or _stacked(t[3])
    return False


def py_value(text: str) -> int:
    return eval(text, {"__builtins__": {}}, {})


def selftest() -> None:
    L = lambda v: ["lit", v, "d"]
    t = ["bin", "+", L(1), ["bin", "*", L(2), L(3)]]
    assert render(t) == "1 + 2 * 3" and evaluate(t) == 7
    t = ["bin", "*", ["bin", "+", L(1), L(2)], L(3)]
    assert render(t) == "(1 + 2) * 3" and evaluate(t) == 9
    t = ["bin", "-", L(10), ["bin", "-", L(4), L(3)]]
    assert render(t) == "10 - (4 - 3)" and evaluate(t) == 9
    t = ["bin", "-", ["bin", "-", L(10), L(4)], L(3)]
    assert render(t) == "10 - 4 - 3" and evaluate(t) == 3
    t = ["bin", "|", ["bin", "&", L(12), L(10)], ["bin", "<<", L(1), ["bin", "+", L(1), L(1)]]]
    assert render(t) == "12 & 10 | 1 << 1 + 1" and evaluate(t) == 12
    assert evaluate(["inv", L(0)]) == 0xFF and evaluate(["inv", L(0x100)]) == 0xFEFF and evaluate(["inv", L(0x10000)]) == 0xFFFEFFFF
    assert evaluate(["inv", ["inv", L(5)]]) == 5 and render(["inv", ["inv", L(5)]]) == "~~5"
    assert render(["neg", ["bin", "*", L(2), L(3)]]) == "-(2 * 3)"
    assert render(["bin", "*", ["neg", L(2)], L(3)]) == "-2 * 3"
    # agreement with Python's own parser/evaluator wherever the syntax coincides (no ~, which is width-relative here)
    import itertools

    pool = [L(1), L(2), L(3), L(5), ["lit", 0xF0, "x"], ["lit", 0x12345, "X"], ["lit", 5, "b"]]
    n = 0
    for o1, o2 in itertools.product(BINOPS, repeat=2):
        for a, b, c in [(pool[0], pool[3], pool[2]), (pool[5], pool[1], pool[2]), (pool[4], pool[6], pool[1])]:
            for t in (["bin", o2, ["bin", o1, a, b], c], ["bin", o1, a, ["bin", o2, b, c]], ["bin", o1, ["neg", a], ["bin", o2, b, c]]):
                try:
                    v = evaluate(t)
                except Undefined:
                    continue
                assert v == py_value(render(t)), render(t)
                n += 1
    assert n > 300, n
