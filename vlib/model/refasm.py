"""Reference assembler over the program IR — written from the property statements, never imports a816.

IR statement kinds (JSON dicts, key "k"):
  org a | reloc a | label n | ins m shape sfx e | data d es | ascii s | text s | table f | incbin f
  const n e eager | block b | scope n b | macro n ps b | call n args | splice p | if c t e
  for v lo hi b | include f b | ips f delta | map spec
Expressions are vlib/model/expr.py trees.

Semantics (C03 / C08 / C09 / C10 statements):
 * scopes: a block, a named scope, a macro application and a loop iteration each open a scope
   whose parent is the scope where it is written / applied; a name resolves to the innermost
   enclosing scope that defines it (anywhere in that scope); a named scope s also defines s.n in
   its parent for each of its own names; .if branches and .include bodies and {{code}} splices are
   inline (no scope).
 * expansion time: := constants (from their definition on), eagerly evaluable macro arguments and
   loop variables; .if conditions (undefined name => false) and .for bounds use only those.
 * layout: sequential, logical (run) address + file offset; *= sets both, @= only the run address;
   every byte advances both, the run address by the bus law.
"""
from __future__ import annotations

from . import busmodel, expr as X, isa, table as T


class Reject(Exception):
    """the program must be rejected by the assembler"""


class Unspecified(Exception):
    """the statements do not say what happens (cross-bank branch, *= into RAM, ...)"""


class Scope:
    __slots__ = ("parent", "kind", "name", "defs", "xdefs", "code", "table", "internal", "id", "declared")
    _n = 0
    tracer = None   # optional callable(name, scope that holds the definition): set by a tracing Assembler
    origins = None  # optional dict (id(scope), key) -> (id(defining scope), name): follows named-scope exports

    def __init__(self, parent, kind, name=None):
        self.parent, self.kind, self.name = parent, kind, name
        self.defs: dict[str, int] = {}
        self.xdefs: dict[str, int] = {}  # known at expansion time
        self.code: dict[str, list] = {}  # code-block macro arguments
        self.declared: set[str] = set()  # names this scope defines at layout time (labels, = constants, late parameters)
        self.table = None
        self.internal = kind == "loop"
        Scope._n += 1
        self.id = Scope._n

    def define(self, name, value, x=False):
        self.defs[name] = value
        if x:
            self.xdefs[name] = value
        if self.kind == "named" and self.parent is not None:
            self.parent.defs[f"{self.name}.{name}"] = value
            if x:
                self.parent.xdefs[f"{self.name}.{name}"] = value
            if Scope.origins is not None:
                Scope.origins[(id(self.parent), f"{self.name}.{name}")] = Scope.origins.get((id(self), name), (id(self), name))

    def lookup(self, name):
        s = self
        while s is not None:
            if name in s.defs:
                if Scope.tracer is not None:
                    Scope.tracer(name, s)
                return s.defs[name]
            s = s.parent
        raise KeyError(name)

    def xlookup(self, name):
        s = self
        while s is not None:
            if name in s.xdefs:
                if Scope.tracer is not None:
                    Scope.tracer(name, s)
                return s.xdefs[name]
            if name in s.declared:
                # the innermost enclosing scope that defines the name is this one, and its value is
                # not known at expansion time: an outer binding must not leak in
                raise KeyError(name)
            s = s.parent
        raise KeyError(name)

    def find_code(self, name):
        s = self
        while s is not None:
            if name in s.code:
                return s.code[name]
            s = s.parent
        raise KeyError(name)

    def get_table(self):
        s = self
        while s is not None:
            if s.table is not None:
                return s.table
            s = s.parent
        return None


class Result:
    def __init__(self):
        self.status = "ok"
        self.cause = ""
        self.blocks: list[tuple[int, bytes]] = []  # in the order the writer must receive them is NOT asserted
        self.writes: list[tuple[int, int]] = []
        self.labels: list[tuple[str, int]] = []
        self.labels_outside_loops: list[tuple[str, int]] = []  # defined neither in a loop iteration nor in anything nested in one
        self.names_under_loops: set[str] = set()  # names of labels defined in a loop iteration or in anything nested in one
        self.stmt_spans: list[tuple[int, int]] = []  # (offset, length) of each emitting statement
        self.stats: dict = {}
        self.free_base = False  # the program emits before its first *=: offsets of that part are not specified

    def image(self):
        img = {}
        for o, b in self.writes:
            img[o] = b
        return img


MAX_ITEMS = 20000


class Assembler:
    def __init__(self, rom="low", files=None, usermap=None, defines=None, tables=None, trace=False):
        self.trace = trace
        self.trace_refs: list = []   # (id(statement), name as written, origin)
        self.trace_defs: dict = {}   # id(label statement) -> origin
        self._cur_st = None
        self.files = files or {}
        self.bus = busmodel.usermap(usermap) if usermap else busmodel.builtin(rom)
        self.items = []
        self.macros = {}
        self.root = Scope(None, "root")
        for k, v in (defines or {}).items():
            self.root.define(k, v, x=True)
        self.scopes = [self.root]
        self.stats = {"bank_cross": 0, "moves": 0, "reloc": 0, "macro_calls": 0, "loops": 0, "bytes": 0, "max_depth": 0}

    # ---- phase 1: expansion -----------------------------------------------------------------------
    def xeval(self, tree, scope):
        return X.evaluate(tree, scope.xlookup)

    def new_scope(self, parent, kind, name=None):
        s = Scope(parent, kind, name)
        self.scopes.append(s)
        d, p = 0, s
        while p.parent is not None:
            d, p = d + 1, p.parent
        self.stats["max_depth"] = max(self.stats["max_depth"], d)
        return s

    def predeclare(self, stmts, scope):
        for st in stmts:
            k = st["k"]
            if k == "label" or (k == "const" and not st["eager"]):
                scope.declared.add(st["n"])
            elif k == "incbin":
                scope.declared.add(st["f"].replace("/", "_").replace(".", "_"))
                scope.declared.add(st["f"].replace("/", "_").replace(".", "_") + "__size")
            elif k == "include":
                self.predeclare(st["b"], scope)
            elif k == "if":
                self.predeclare(st["t"], scope)
                if st.get("e") is not None:
                    self.predeclare(st["e"], scope)

    def expand(self, stmts, scope, depth=0, fresh=True):
        if depth > 330:
            # (two levels per recursive application: the macro body and its .if) beyond ~160 nested applications the
            # assembler's own interpreter stack decides
            raise Unspecified("expansion depth")
        if fresh:
            self.predeclare(stmts, scope)
        for st in stmts:
            if len(self.items) > MAX_ITEMS:
                raise Unspecified("expansion size")
            self._cur_st = st
            k = st["k"]
            if k == "text":
                # the table is the one selected where the statement stands (a later .table of the same scope does not reach back)
                self.items.append((k, scope, dict(st, _tbl=(scope.get_table(),))))
            elif k in ("org", "reloc", "label", "ins", "data", "ascii", "incbin", "ips"):
                self.items.append((k, scope, st))
            elif k == "table":
                scope.table = self.files[st["f"]]
            elif k == "const":
                if st["eager"]:
                    try:
                        scope.define(st["n"], self.xeval(st["e"], scope), x=True)
                    except KeyError as e:
                        raise Reject(f":= needs an expansion-time value ({e})")
                else:
                    self.items.append(("const", scope, st))
            elif k == "block":
                self.expand(st["b"], self.new_scope(scope, "block"), depth + 1)
            elif k == "scope":
                self.expand(st["b"], self.new_scope(scope, "named", st["n"]), depth + 1)
            elif k == "include":
                self.expand(st["b"], scope, depth + 1, fresh=False)
            elif k == "macro":
                self.macros[st["n"]] = st
            elif k == "call":
                m = self.macros.get(st["n"])
                if m is None:
                    raise Reject(f"undefined macro {st['n']}")
                if len(st["args"]) < len(m["ps"]):
                    raise Reject("too few macro arguments")
                callee = self.new_scope(scope, "macro")
                self.stats["macro_calls"] += 1
                for p, a in zip(m["ps"], st["args"]):
                    if isinstance(a, dict) and "code" in a:
                        callee.code[p] = a["code"]
                        continue
                    try:
                        callee.define(p, self.xeval(a, scope), x=True)  # evaluated at the CALL SITE
                    except KeyError:
                        callee.declared.add(p)
                        self.items.append(("argdef", callee, {"n": p, "e": a, "site": scope, "src": st}))
                self.expand(m["b"], callee, depth + 1)
            elif k == "splice":
                try:
                    code = scope.find_code(st["p"])
                except KeyError:
                    raise Reject(f"{st['p']} is not a code block")
                self.expand(code, scope, depth + 1)
            elif k == "if":
                try:
                    c = self.xeval(st["c"], scope)
                except KeyError:
                    c = 0
                if c:
                    self.expand(st["t"], scope, depth + 1, fresh=False)
                elif st.get("e") is not None:
                    self.expand(st["e"], scope, depth + 1, fresh=False)
            elif k == "for":
                try:
                    lo, hi = self.xeval(st["lo"], scope), self.xeval(st["hi"], scope)
                except KeyError as e:
                    raise Reject(f"loop bound needs an expansion-time value ({e})")
                self.stats["loops"] += 1
                for v in range(lo, hi):
                    it = self.new_scope(scope, "loop")
                    it.define(st["v"], v, x=True)
                    self.expand(st["b"], it, depth + 1)
            elif k == "map":
                pass  # handled by the caller through `usermap`
            elif k == "comment":
                pass
            else:
                raise ValueError(k)

    # ---- sizes ---------------------------------------------------------------------------------------
    def ins_width(self, st, scope):
        """operand width in bytes (0 = implied, -1 = relative branch)"""
        prefix = st["shape"][0]
        if prefix == "imp":
            return 0
        if st["m"] in isa.BRANCHES8 and prefix == "" and not st["shape"][1] and not st["shape"][2]:
            return -1
        if st["sfx"]:
            return {"b": 1, "w": 2, "l": 3}[st["sfx"]]
        try:
            v = self.xeval(st["e"], scope)
        except KeyError as e:
            raise Unspecified(f"width inferred from a layout-time symbol ({e})")
        if v < 0:
            raise Unspecified("width inference of a negative operand")
        return 1 if v < 0x100 else 2 if v < 0x10000 else 3

    def size_of(self, item):
        k, scope, st = item
        if k == "ins":
            w = self.ins_width(st, scope)
            return 2 if w == -1 else 1 + w
        if k == "data":
            return {"db": 1, "dw": 2, "dl": 3, "pointer": 3}[st["d"]] * len(st["es"])
        if k == "ascii":
            if not st["s"].isascii():
                raise Unspecified("character without an ASCII byte in .ascii")
            return len(st["s"].encode("ascii"))
        if k == "incbin":
            return len(self.files[st["f"]])
        if k == "text":
            tbl = st["_tbl"][0] if "_tbl" in st else scope.get_table()
            if tbl is None:
                raise Reject("no table in scope")
            return len(T.encode(tbl, st["s"]))
        return 0

    # ---- phases 2-4 ------------------------------------------------------------------------------------
    def _trace(self, name, scope):
        origin = Scope.origins.get((id(scope), name), (id(scope), name))
        self.trace_refs.append((id(self._cur_st), name, origin))

    def run(self, ir) -> Result:
        res = Result()
        if self.trace:
            Scope.tracer, Scope.origins = self._trace, {}
        try:
            return self._run_guarded(ir, res)
        finally:
            Scope.tracer, Scope.origins = None, None

    def _run_guarded(self, ir, res) -> Result:
        try:
            self._run(ir, res)
        except Reject as e:
            res.status, res.cause = "reject", str(e)
        except Unspecified as e:
            res.status, res.cause = "unspecified", str(e)
        res.stats = self.stats
        return res

    def _run(self, ir, res: Result):
        self.expand(ir, self.root)
        bus = self.bus
        # -- layout
        run = None
        off = None
        placed = []  # (item, run, off)
        relocated = False
        for item in self.items:
            k, scope, st = item
            self._cur_st = st.get("src", st) if isinstance(st, dict) else st
            if k == "org":
                a = self._addr(st, scope)
                kind = bus.kind(a)
                if kind == "unmapped":
                    raise Reject("unmapped address")
                if kind != "rom":
                    raise Unspecified(f"*= to a {kind} address")
                run, off = a, bus.physical(a)
                relocated = False
                self.stats["moves"] += 1
                placed.append((item, run, off))
                continue
            if k == "reloc":
                a = self._addr(st, scope)
                kind = bus.kind(a)
                if kind == "unmapped":
                    raise Reject("unmapped address")
                if kind == "rom_out":
                    raise Unspecified("@= below the window")
                if run is None:
                    # no *= yet: the run address is set, where the bytes are stored is not specified (free_base)
                    res.free_base = True
                    off = 0
                    placed.append(((("org", scope, {"k": "org", "a": None, "src": st})), a, 0))
                run = a
                relocated = True
                self.stats["reloc"] += 1
                placed.append((item, run, off))
                continue
            if k in ("const", "argdef", "ips"):
                placed.append((item, run, off))
                continue
            if run is None:
                raise Unspecified("statement before any *=")
            if k == "label":
                if st["n"] in scope.defs:
                    raise Unspecified("duplicate definition in one scope")
                scope.define(st["n"], run)
                if self.trace:
                    self.trace_defs[id(st)] = (id(scope), st["n"])
                if not self._in_loop(scope):
                    res.labels.append((st["n"], run))
                if not self._under_loop(scope):
                    res.labels_outside_loops.append((st["n"], run))
                else:
                    res.names_under_loops.add(st["n"])
                placed.append((item, run, off))
                continue
            n = self.size_of(item)
            if k == "incbin":
                base = st["f"].replace("/", "_").replace(".", "_")
                if base in scope.defs or base + "__size" in scope.defs:
                    raise Unspecified("duplicate definition in one scope")
                scope.define(base, run)
                scope.define(base + "__size", n)
                if not self._in_loop(scope):
                    res.labels.append((base, run))
            if n >= bus.room(run):
                raise Unspecified("runs past the end of the mapped range")
            placed.append((item, run, off))
            if n:
                last = bus.advance(run, n - 1)
                if (last >> 16) != (run >> 16):
                    self.stats["bank_cross"] += 1
                run = bus.advance(run, n)
                off += n
        # -- symbols (in order)
        for (k, scope, st), _, _ in placed:
            self._cur_st = st.get("src", st)
            if k == "const":
                try:
                    scope.define(st["n"], X.evaluate(st["e"], scope.lookup))
                except KeyError as e:
                    raise Reject(f"undefined symbol {e} in = definition")
            elif k == "argdef":
                try:
                    scope.define(st["n"], X.evaluate(st["e"], st["site"].lookup))
                except KeyError as e:
                    raise Reject(f"undefined symbol {e} in macro argument")
        # -- emission
        cur_block = None
        for (k, scope, st), run, off in placed:
            self._cur_st = st.get("src", st)
            if k == "org":
                cur_block = [off, bytearray()]
                res.blocks.append(cur_block)
                continue
            if k == "ips":
                for o, d in self.files[st["f"]]:
                    res.blocks.append([o + st["delta"], bytearray(d)])
                    res.writes.extend((o + st["delta"] + i, b) for i, b in enumerate(d))
                continue
            data = self.emit(k, scope, st, run)
            if data:
                res.stmt_spans.append((off, len(data)))
                cur_block[1] += data
                res.writes.extend((off + i, b) for i, b in enumerate(data))
                self.stats["bytes"] += len(data)
        res.blocks = [(o, bytes(d)) for o, d in res.blocks if len(d)]

    def _in_loop(self, scope):
        # labels of loop iterations (and of anything nested in them) are not listed by name
        return scope.internal

    def _under_loop(self, scope):
        while scope is not None:
            if scope.internal:
                return True
            scope = scope.parent
        return False

    def _addr(self, st, scope):
        a = st["a"]
        if isinstance(a, int):
            return a
        try:
            return self.xeval(a, scope)
        except KeyError:
            pass
        if all(n.startswith("lb_p") for n in X.idents(a)):
            # a label defined right before the move (progen's `here: *=here`): its value is known when the move is laid out
            try:
                return X.evaluate(a, scope.lookup)
            except KeyError as e:
                raise Unspecified(f"position from a label that is not placed yet ({e})")
        raise Unspecified("position from a layout-time symbol")

    def value(self, tree, scope):
        try:
            return X.evaluate(tree, scope.lookup)
        except KeyError as e:
            raise Reject(f"undefined symbol {e}")

    def emit(self, k, scope, st, run) -> bytes:
        bus = self.bus
        if k == "data":
            w = {"db": 1, "dw": 2, "dl": 3, "pointer": 3}[st["d"]]
            return b"".join((self.value(e, scope) & ((1 << (8 * w)) - 1)).to_bytes(w, "little") for e in st["es"])
        if k == "ascii":
            return st["s"].encode("ascii")
        if k == "incbin":
            return self.files[st["f"]]
        if k == "text":
            return T.encode(st["_tbl"][0] if "_tbl" in st else scope.get_table(), st["s"])
        if k == "ins":
            m = st["m"].lower()
            prefix, inner, outer = st["shape"]
            w = self.ins_width(st, scope)
            if w == 0:
                b = isa.implied(m)
                if b is None:
                    raise Reject("no implied form")
                return bytes([b])
            v = self.value(st["e"], scope)
            if w == -1:
                if bus.kind(run) != "rom" or bus.kind(run + 1) != "rom":
                    if bus.kind(run) == "ram":
                        raise Reject("branch runs from RAM")
                    raise Unspecified("branch outside the window")
                tk = bus.kind(v) if 0 <= v <= 0xFFFFFF else "unmapped"
                if tk == "ram":
                    raise Reject("branch target in RAM")
                if tk != "rom":
                    raise Unspecified("branch target not in-window ROM")
                if (v >> 16) != (run >> 16):
                    raise Unspecified("cross-bank branch")
                d = v - (run + 2)
                if not -128 <= d <= 127:
                    raise Reject("branch out of range")
                return bytes([isa.BY_KEY[(m, "rel8")], d & 0xFF])
            b = isa.lookup(m, prefix, inner, outer, w)
            if b is None:
                raise Reject("undefined instruction")
            if w == 3 and not 0 <= v < 1 << 24:
                raise Unspecified(".l operand outside 0..2^24-1")
            return bytes([b]) + (v & ((1 << (8 * w)) - 1)).to_bytes(w, "little")
        return b""


def assemble(ir, rom="low", files=None, usermap=None, defines=None) -> Result:
    return Assembler(rom=rom, files=files, usermap=usermap, defines=defines).run(ir)


def selftest() -> None:
    L = lambda v: ["lit", v, "x"]
    ir = [
        {"k": "org", "a": 0x00FFFE},
        {"k": "label", "n": "a"},
        {"k": "data", "d": "dl", "es": [["id", "b"]]},
        {"k": "label", "n": "b"},
        {"k": "reloc", "a": 0x7E0010},
        {"k": "label", "n": "c"},
        {"k": "ins", "m": "lda", "shape": ["", None, None], "sfx": "l", "e": ["id", "c"]},
        {"k": "scope", "n": "s", "b": [{"k": "label", "n": "x"}, {"k": "data", "d": "db", "es": [L(1)]}]},
        {"k": "data", "d": "dl", "es": [["id", "s.x"]]},
        {"k": "macro", "n": "m", "ps": ["p"], "b": [{"k": "label", "n": "l"}, {"k": "data", "d": "dw", "es": [["bin", "+", ["id", "p"], ["id", "l"]]]}]},
        {"k": "for", "v": "i", "lo": L(0), "hi": L(2), "b": [{"k": "call", "n": "m", "args": [["id", "i"]]}]},
        {"k": "if", "c": ["id", "nope"], "t": [{"k": "data", "d": "db", "es": [L(0xAA)]}], "e": [{"k": "data", "d": "db", "es": [L(0xBB)]}]},
    ]
    r = assemble(ir)
    assert r.status == "ok", r.cause
    blob = b"".join(d for _, d in r.blocks)
    exp = bytes([0x01, 0x80, 0x01]) + bytes([0xAF, 0x10, 0x00, 0x7E]) + b"\x01" + bytes([0x14, 0x00, 0x7E])
    exp += (0 + 0x7E0018).to_bytes(3, "little")[:2] + (1 + 0x7E001A).to_bytes(3, "little")[:2] + b"\xbb"
    assert blob == exp, (blob.hex(), exp.hex())
    assert r.blocks[0][0] == 0x7FFE and dict(r.labels)["b"] == 0x018001 and dict(r.labels)["c"] == 0x7E0010
    assert ("l", 0x7E0018) in r.labels and ("l", 0x7E001A) in r.labels  # macro scopes nested in a loop iteration are ordinary scopes
    r = assemble([{"k": "org", "a": 0x008000}, {"k": "data", "d": "db", "es": [["id", "zz"]]}])
    assert r.status == "reject"
    r = assemble([{"k": "org", "a": 0x008000}, {"k": "call", "n": "nope", "args": []}])
    assert r.status == "reject"
