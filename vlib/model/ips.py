"""Strict IPS reader / applier / builder, written from the format description (never imports a816).

file   := "PATCH" record* "EOF"
record := offset(3, big endian) size(2, big endian, != 0) data[size]
        | offset(3)             0x0000 count(2, big endian) value(1)          (run-length record)
The three bytes "EOF" at a record boundary end the patch (so a record can not start at 0x454F46);
strict mode requires end-of-file right after them.
"""
from __future__ import annotations

EOF_OFFSET = 0x454F46


class IpsError(Exception):
    pass


def parse(data: bytes, strict_tail: bool = True) -> list[tuple[int, bytes, bool]]:
    """-> [(offset, bytes, is_rle)] in file order"""
    if data[:5] != b"PATCH":
        raise IpsError("missing PATCH header")
    pos = 5
    records = []
    n = len(data)
    while True:
        if pos + 3 > n:
            raise IpsError("truncated: no EOF marker")
        head = data[pos:pos + 3]
        if head == b"EOF":
            pos += 3
            break
        off = int.from_bytes(head, "big")
        pos += 3
        if pos + 2 > n:
            raise IpsError("truncated size")
        size = int.from_bytes(data[pos:pos + 2], "big")
        pos += 2
        if size == 0:
            if pos + 3 > n:
                raise IpsError("truncated RLE record")
            count = int.from_bytes(data[pos:pos + 2], "big")
            val = data[pos + 2]
            pos += 3
            records.append((off, bytes([val]) * count, True))
        else:
            if pos + size > n:
                raise IpsError("truncated data")
            records.append((off, data[pos:pos + size], False))
            pos += size
    if strict_tail and pos != n:
        raise IpsError("trailing bytes after EOF")
    return records


def build(records: list[tuple[int, bytes | tuple[int, int]]]) -> bytes:
    """records: (offset, data bytes) plain, or (offset, (value, count)) RLE"""
    out = bytearray(b"PATCH")
    for off, payload in records:
        out += off.to_bytes(3, "big")
        if isinstance(payload, tuple):
            val, count = payload
            out += b"\x00\x00" + count.to_bytes(2, "big") + bytes([val])
        else:
            assert 1 <= len(payload) <= 0xFFFF
            out += len(payload).to_bytes(2, "big") + payload
    out += b"EOF"
    return bytes(out)


def normalise(writes: list[tuple[int, bytes]]) -> list[tuple[int, bytes]]:
    """merge consecutive writes that are contiguous (a different but equivalent tiling is the same
    effect); empty writes vanish.  Order is preserved."""
    out: list[list] = []
    for off, data in writes:
        if len(data) == 0:
            continue
        if out and out[-1][0] + len(out[-1][1]) == off:
            out[-1][1] += data
        else:
            out.append([off, bytearray(data)])
    return [(o, bytes(d)) for o, d in out]


def apply(writes: list[tuple[int, bytes]], image: dict[int, int] | None = None) -> dict[int, int]:
    img = {} if image is None else image
    for off, data in writes:
        for i, b in enumerate(data):
            img[off + i] = b
    return img


def selftest() -> None:
    recs = [(0, b"ab"), (2, b"c"), (0x10, (0x55, 3)), (0xFFFFFF, b"z"), (5, b"EOF"), (0x100, b"x" * 0xFFFF)]
    blob = build(recs)
    parsed = parse(blob)
    assert [(o, d) for o, d, _ in parsed] == [(0, b"ab"), (2, b"c"), (0x10, b"UUU"), (0xFFFFFF, b"z"), (5, b"EOF"), (0x100, b"x" * 0xFFFF)]
    assert parsed[2][2] is True and parsed[0][2] is False
    assert normalise([(0, b"ab"), (2, b"c"), (9, b""), (3, b"d"), (0, b"q")]) == [(0, b"abcd"), (0, b"q")]
    for cut in range(len(blob) - 1 - 0xFFFF, len(blob)):
        try:
            parse(blob[:cut])
            raise AssertionError("truncated patch parsed")
        except IpsError:
            pass
    for bad in (b"", b"PATCHEO", b"PATC", b"patchEOF", b"PATCHEOFx", b"PATCH\x00\x00\x01\x00\x02aEOF"):
        try:
            parse(bad)
            raise AssertionError(bad)
        except IpsError:
            pass
    assert parse(b"PATCHEOF") == []
