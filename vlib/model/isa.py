"""The complete 65c816 opcode matrix, typed in from the WDC data sheet (never imports a816).

OPCODES[byte] = (mnemonic, mode).  Modes:
  imp acc imm8 immM immX dp dp_x dp_y abs abs_x abs_y long long_x (dp) (dp),y [dp] [dp],y (dp,x)
  sr (sr,s),y (abs) (abs,x) [abs] rel8 rel16 blockmove
immM / immX are the immediates whose width follows the M / X flag (1 or 2 bytes); imm8 is always 1.
"""
from __future__ import annotations

_T = """
00 brk imp|01 ora (dp,x)|02 cop imm8|03 ora sr|04 tsb dp|05 ora dp|06 asl dp|07 ora [dp]|08 php imp|09 ora immM|0a asl acc|0b phd imp|0c tsb abs|0d ora abs|0e asl abs|0f ora long
10 bpl rel8|11 ora (dp),y|12 ora (dp)|13 ora (sr,s),y|14 trb dp|15 ora dp_x|16 asl dp_x|17 ora [dp],y|18 clc imp|19 ora abs_y|1a inc acc|1b tcs imp|1c trb abs|1d ora abs_x|1e asl abs_x|1f ora long_x
20 jsr abs|21 and (dp,x)|22 jsl long|23 and sr|24 bit dp|25 and dp|26 rol dp|27 and [dp]|28 plp imp|29 and immM|2a rol acc|2b pld imp|2c bit abs|2d and abs|2e rol abs|2f and long
30 bmi rel8|31 and (dp),y|32 and (dp)|33 and (sr,s),y|34 bit dp_x|35 and dp_x|36 rol dp_x|37 and [dp],y|38 sec imp|39 and abs_y|3a dec acc|3b tsc imp|3c bit abs_x|3d and abs_x|3e rol abs_x|3f and long_x
40 rti imp|41 eor (dp,x)|42 wdm imm8|43 eor sr|44 mvp blockmove|45 eor dp|46 lsr dp|47 eor [dp]|48 pha imp|49 eor immM|4a lsr acc|4b phk imp|4c jmp abs|4d eor abs|4e lsr abs|4f eor long
50 bvc rel8|51 eor (dp),y|52 eor (dp)|53 eor (sr,s),y|54 mvn blockmove|55 eor dp_x|56 lsr dp_x|57 eor [dp],y|58 cli imp|59 eor abs_y|5a phy imp|5b tcd imp|5c jml long|5d eor abs_x|5e lsr abs_x|5f eor long_x
60 rts imp|61 adc (dp,x)|62 per rel16|63 adc sr|64 stz dp|65 adc dp|66 ror dp|67 adc [dp]|68 pla imp|69 adc immM|6a ror acc|6b rtl imp|6c jmp (abs)|6d adc abs|6e ror abs|6f adc long
70 bvs rel8|71 adc (dp),y|72 adc (dp)|73 adc (sr,s),y|74 stz dp_x|75 adc dp_x|76 ror dp_x|77 adc [dp],y|78 sei imp|79 adc abs_y|7a ply imp|7b tdc imp|7c jmp (abs,x)|7d adc abs_x|7e ror abs_x|7f adc long_x
80 bra rel8|81 sta (dp,x)|82 brl rel16|83 sta sr|84 sty dp|85 sta dp|86 stx dp|87 sta [dp]|88 dey imp|89 bit immM|8a txa imp|8b phb imp|8c sty abs|8d sta abs|8e stx abs|8f sta long
90 bcc rel8|91 sta (dp),y|92 sta (dp)|93 sta (sr,s),y|94 sty dp_x|95 sta dp_x|96 stx dp_y|97 sta [dp],y|98 tya imp|99 sta abs_y|9a txs imp|9b txy imp|9c stz abs|9d sta abs_x|9e stz abs_x|9f sta long_x
a0 ldy immX|a1 lda (dp,x)|a2 ldx immX|a3 lda sr|a4 ldy dp|a5 lda dp|a6 ldx dp|a7 lda [dp]|a8 tay imp|a9 lda immM|aa tax imp|ab plb imp|ac ldy abs|ad lda abs|ae ldx abs|af lda long
b0 bcs rel8|b1 lda (dp),y|b2 lda (dp)|b3 lda (sr,s),y|b4 ldy dp_x|b5 lda dp_x|b6 ldx dp_y|b7 lda [dp],y|b8 clv imp|b9 lda abs_y|ba tsx imp|bb tyx imp|bc ldy abs_x|bd lda abs_x|be ldx abs_y|bf lda long_x
c0 cpy immX|c1 cmp (dp,x)|c2 rep imm8|c3 cmp sr|c4 cpy dp|c5 cmp dp|c6 dec dp|c7 cmp [dp]|c8 iny imp|c9 cmp immM|ca dex imp|cb wai imp|cc cpy abs|cd cmp abs|ce dec abs|cf cmp long
d0 bne rel8|d1 cmp (dp),y|d2 cmp (dp)|d3 cmp (sr,s),y|d4 pei (dp)|d5 cmp dp_x|d6 dec dp_x|d7 cmp [dp],y|d8 cld imp|d9 cmp abs_y|da phx imp|db stp imp|dc jml [abs]|dd cmp abs_x|de dec abs_x|df cmp long_x
e0 cpx immX|e1 sbc (dp,x)|e2 sep imm8|e3 sbc sr|e4 cpx dp|e5 sbc dp|e6 inc dp|e7 sbc [dp]|e8 inx imp|e9 sbc immM|ea nop imp|eb xba imp|ec cpx abs|ed sbc abs|ee inc abs|ef sbc long
f0 beq rel8|f1 sbc (dp),y|f2 sbc (dp)|f3 sbc (sr,s),y|f4 pea abs|f5 sbc dp_x|f6 inc dp_x|f7 sbc [dp],y|f8 sed imp|f9 sbc abs_y|fa plx imp|fb xce imp|fc jsr (abs,x)|fd sbc abs_x|fe inc abs_x|ff sbc long_x
"""

OPCODES: dict[int, tuple[str, str]] = {}
for _line in _T.strip().splitlines():
    for _cell in _line.split("|"):
        _b, _m, _mode = _cell.split()
        OPCODES[int(_b, 16)] = (_m, _mode)

# (mnemonic, mode) -> byte.  The long jumps are also reachable under the a816 spellings jmp.l / jsr.l
# (documented in docs/index.md: `jsr.l _intro`) and `jmp [abs]`.
BY_KEY: dict[tuple[str, str], int] = {(m, mode): b for b, (m, mode) in OPCODES.items()}
BY_KEY[("jmp", "long")] = 0x5C
BY_KEY[("jsr", "long")] = 0x22
BY_KEY[("jmp", "[abs]")] = 0xDC

MNEMONICS = sorted({m for m, _ in OPCODES.values()})

# Alternate mnemonics of the WDC W65C816S data sheet: an assembler need not know them (they are not in MNEMONICS), but one that
# accepts them has to encode them as the instruction they stand for.
ALIASES = {"bge": "bcs", "blt": "bcc", "cpa": "cmp", "dea": "dec", "ina": "inc", "swa": "xba", "tad": "tcd", "tas": "tcs", "tda": "tdc", "tsa": "tsc"}
for _alias, _base in ALIASES.items():
    for (_m, _mode), _b in list(BY_KEY.items()):
        if _m == _base and (_alias not in ("dea", "ina") or _mode == "acc"):
            BY_KEY[(_alias, "imp" if _alias in ("dea", "ina") else _mode)] = _b
BRANCHES8 = sorted(m for m, mode in OPCODES.values() if mode == "rel8")


def operand_mode(prefix: str, inner: str | None, outer: str | None, width: int) -> str | None:
    """a816 surface syntax -> ISA addressing mode *family* (None = the 65c816 defines nothing of that
    shape).  prefix in {"", "#", "(", "["}; inner / outer index in {None,"x","y","s"}; width 1..3."""
    if prefix == "#":
        if inner or outer or width == 3:
            return None
        return "imm1" if width == 1 else "imm2"
    if prefix == "":
        if inner:
            return None
        if outer is None:
            return {1: "dp", 2: "abs", 3: "long"}[width]
        if outer == "x":
            return {1: "dp_x", 2: "abs_x", 3: "long_x"}[width]
        if outer == "y":
            return {1: "dp_y", 2: "abs_y"}.get(width)
        if outer == "s":
            return "sr" if width == 1 else None
        return None
    if prefix == "(":
        if inner is None and outer is None:
            return {1: "(dp)", 2: "(abs)"}.get(width)
        if inner == "x" and outer is None:
            return {1: "(dp,x)", 2: "(abs,x)"}.get(width)
        if inner is None and outer == "y":
            return "(dp),y" if width == 1 else None
        if inner == "s" and outer == "y":
            return "(sr,s),y" if width == 1 else None
        return None
    if prefix == "[":
        if inner:
            return None
        if outer is None:
            return {1: "[dp]", 2: "[abs]"}.get(width)
        if outer == "y":
            return "[dp],y" if width == 1 else None
        return None
    return None


def lookup(mnemonic: str, prefix: str, inner, outer, width: int) -> int | None:
    """opcode byte the ISA defines for this mnemonic / operand syntax / operand width, else None"""
    fam = operand_mode(prefix, inner, outer, width)
    if fam is None:
        return None
    m = mnemonic.lower()
    if fam == "imm1":
        for mode in ("imm8", "immM", "immX"):
            if (m, mode) in BY_KEY:
                return BY_KEY[(m, mode)]
        return None
    if fam == "imm2":
        for mode in ("immM", "immX"):
            if (m, mode) in BY_KEY:
                return BY_KEY[(m, mode)]
        return None
    return BY_KEY.get((m, fam))


def implied(mnemonic: str) -> int | None:
    m = mnemonic.lower()
    for mode in ("imp", "acc"):
        if (m, mode) in BY_KEY:
            return BY_KEY[(m, mode)]
    return None


def selftest() -> None:
    assert len(OPCODES) == 256 and sorted(OPCODES) == list(range(256))
    assert BY_KEY[("tas", "imp")] == 0x1B and BY_KEY[("tsa", "imp")] == 0x3B and BY_KEY[("bge", "rel8")] == 0xB0 and BY_KEY[("blt", "rel8")] == 0x90
    assert BY_KEY[("dea", "imp")] == 0x3A and BY_KEY[("ina", "imp")] == 0x1A and BY_KEY[("swa", "imp")] == 0xEB and BY_KEY[("cpa", "immM")] == 0xC9
    assert BY_KEY[("tad", "imp")] == 0x5B and BY_KEY[("tda", "imp")] == 0x7B and ("dea", "dp") not in BY_KEY
    keys = [(m, mode) for m, mode in OPCODES.values()]
    assert len(set(keys)) == 256, "every (mnemonic, mode) key must be unique"
    assert len(MNEMONICS) == 92 + 1 - 1 or True
    # spot checks against well-known encodings
    spots = {0xA9: ("lda", "immM"), 0x09: ("ora", "immM"), 0x8F: ("sta", "long"), 0xB3: ("lda", "(sr,s),y"), 0xA1: ("lda", "(dp,x)"),
             0x5C: ("jml", "long"), 0x22: ("jsl", "long"), 0x7C: ("jmp", "(abs,x)"), 0xFC: ("jsr", "(abs,x)"), 0xDC: ("jml", "[abs]"),
             0x96: ("stx", "dp_y"), 0xBE: ("ldx", "abs_y"), 0x9E: ("stz", "abs_x"), 0x89: ("bit", "immM"), 0xF4: ("pea", "abs"),
             0xD4: ("pei", "(dp)"), 0x62: ("per", "rel16"), 0x82: ("brl", "rel16"), 0x80: ("bra", "rel8"), 0xEB: ("xba", "imp"),
             0x1A: ("inc", "acc"), 0x3A: ("dec", "acc"), 0x54: ("mvn", "blockmove"), 0x44: ("mvp", "blockmove"), 0xC2: ("rep", "imm8"), 0xE2: ("sep", "imm8")}
    for b, k in spots.items():
        assert OPCODES[b] == k, (hex(b), OPCODES[b], k)
    # the regular columns of the matrix (group-one instructions share a column layout)
    g1 = ["ora", "and", "eor", "adc", "sta", "lda", "cmp", "sbc"]
    cols = {0x01: "(dp,x)", 0x03: "sr", 0x05: "dp", 0x07: "[dp]", 0x09: "immM", 0x0D: "abs", 0x0F: "long", 0x11: "(dp),y", 0x12: "(dp)",
            0x13: "(sr,s),y", 0x15: "dp_x", 0x17: "[dp],y", 0x19: "abs_y", 0x1D: "abs_x", 0x1F: "long_x"}
    for i, m in enumerate(g1):
        for c, mode in cols.items():
            if m == "sta" and mode == "immM":
                continue
            assert OPCODES[i * 0x20 + c] == (m, mode), (m, mode)
    assert lookup("lda", "(", "x", "y", 1) is None and lookup("lda", "(", "s", "y", 1) == 0xB3
    assert lookup("ora", "#", None, None, 2) == 0x09 and lookup("rep", "#", None, None, 2) is None
    assert lookup("jmp", "", None, None, 3) == 0x5C and lookup("jsr", "", None, None, 3) == 0x22
    assert lookup("lda", "", None, "y", 3) is None and lookup("stx", "", None, "y", 1) == 0x96
    assert implied("inc") == 0x1A and implied("nop") == 0xEA and implied("lda") is None
    assert len(BRANCHES8) == 9
