"""Runner: replay -> enumerate -> Hypothesis; collect-then-shrink; known findings; evidence; exit codes.

Exit codes: 0 held (possibly KNOWN-FINDING lines), 1 at least one VIOLATION line, 2 harness error.
"""
from __future__ import annotations

import argparse
import collections
import hashlib
import importlib
import json
import multiprocessing as mp
import os
import sys
import time
import traceback
from typing import Any, Callable, Iterable

from . import VERIF_ROOT, REPO_ROOT, add_repo_to_path

add_repo_to_path()

NPROC = int(os.environ.get("VERIF_NPROC", "16"))


# ---------------------------------------------------------------------------------------------
# outcome protocol


class Viol:
    __slots__ = ("sig", "case", "detail")

    def __init__(self, sig: str, case: Any, detail: str = "") -> None:
        self.sig, self.case, self.detail = sig, case, detail


class Outcome:
    """result of run_case(case).

    evals       number of executions of the code under test this case stands for (bulk cases > 1)
    nontrivial  bool (this case is non-trivial by the check's rule) or int (bulk: how many distinct
                non-trivial sub-cases, distinct by construction)
    labels      classification labels (generator distribution statistics)
    violations  list of Viol (sig = root-cause signature; case = minimal sub-case to replay)
    skip        reason string when the case was not evaluated (outside the property's domain)
    sample      JSON-able rendering for the evidence file
    """

    __slots__ = ("evals", "nontrivial", "labels", "violations", "skip", "sample")

    def __init__(self, evals=1, nontrivial=False, labels=(), violations=None, skip=None, sample=None):
        self.evals = evals
        self.nontrivial = nontrivial
        self.labels = labels if isinstance(labels, list) else list(labels)
        self.violations = violations or []
        self.skip = skip
        self.sample = sample

    def bad(self, sig: str, case: Any, detail: str = "") -> "Outcome":
        self.violations.append(Viol(sig, case, detail))
        return self


def case_hash(case: Any) -> int:
    s = json.dumps(case, sort_keys=True, separators=(",", ":"), default=str)
    return int.from_bytes(hashlib.blake2b(s.encode(), digest_size=8).digest(), "big")


def case_size(case: Any) -> int:
    return len(json.dumps(case, sort_keys=True, default=str))


class Acc:
    """per-worker accumulator; merged in the parent."""

    def __init__(self) -> None:
        self.evals = 0
        self.cases = 0
        self.nt_hashes: set[int] = set()
        self.nt_bulk = 0
        self.labels: collections.Counter = collections.Counter()
        self.viol: dict[str, dict] = {}
        self.samples: list = []
        self.sample_keys: set = set()
        self.trivial_samples: list = []
        self.skips: collections.Counter = collections.Counter()
        self.harness_errors: list[str] = []

    def add(self, case: Any, out: Outcome, render: Callable | None = None) -> None:
        self.cases += 1
        if out.skip:
            self.skips[out.skip] += 1
            for lab in out.labels:
                self.labels[lab] += 1
            return
        self.evals += out.evals
        for lab in out.labels:
            self.labels[lab] += 1
        if out.nontrivial is True:
            self.nt_hashes.add(case_hash(case))
        elif isinstance(out.nontrivial, int) and not isinstance(out.nontrivial, bool):
            self.nt_bulk += out.nontrivial
        sample = out.sample
        if sample is not None:
            key = out.labels[0] if out.labels else ""
            if out.nontrivial and key not in self.sample_keys and len(self.samples) < 10:
                self.sample_keys.add(key)
                self.samples.append([key, sample])
            elif not out.nontrivial and len(self.trivial_samples) < 1:
                self.trivial_samples.append(["trivial:" + key, sample])
        for v in out.violations:
            sz = case_size(v.case)
            cur = self.viol.get(v.sig)
            if cur is None:
                self.viol[v.sig] = {"sig": v.sig, "case": v.case, "detail": v.detail, "size": sz, "count": 1}
            else:
                cur["count"] += 1
                if sz < cur["size"]:
                    cur.update(case=v.case, detail=v.detail, size=sz)

    def merge(self, other: "Acc") -> None:
        self.evals += other.evals
        self.cases += other.cases
        self.nt_hashes |= other.nt_hashes
        self.nt_bulk += other.nt_bulk
        self.labels.update(other.labels)
        self.skips.update(other.skips)
        for s in other.samples:
            if len(self.samples) < 40 and s[0] not in self.sample_keys:
                self.sample_keys.add(s[0])
                self.samples.append(s)
        for s in other.trivial_samples:
            if len(self.trivial_samples) < 2:
                self.trivial_samples.append(s)
        for sig, v in other.viol.items():
            cur = self.viol.get(sig)
            if cur is None:
                self.viol[sig] = dict(v)
            else:
                cur["count"] += v["count"]
                if v["size"] < cur["size"]:
                    cur.update(case=v["case"], detail=v["detail"], size=v["size"])
        self.harness_errors += other.harness_errors


# ---------------------------------------------------------------------------------------------
# workers


_CHECK = None


def _load_check(pid: str):
    global _CHECK
    if _CHECK is None or _CHECK.PROPERTY != pid:
        _CHECK = importlib.import_module(f"checks.{pid.lower()}")
    return _CHECK


class CaseTimeout(BaseException):
    """wall-clock backstop for one case: marks it inconclusive, never a violation"""


CASE_TIMEOUT_S = int(os.environ.get("VERIF_CASE_TIMEOUT", "120"))


def _on_alarm(signum, frame):
    raise CaseTimeout()


def _worker_init(pid: str) -> None:
    import resource
    import signal

    from . import driver

    driver.init_worker()
    sys.setrecursionlimit(3000)
    # a runaway allocation in the code under test becomes a MemoryError instead of an OOM kill
    lim = 6 * 1024 ** 3
    try:
        resource.setrlimit(resource.RLIMIT_AS, (lim, lim))
    except (ValueError, OSError):
        pass
    signal.signal(signal.SIGALRM, _on_alarm)
    _load_check(pid)


def safe_run_case(check, case) -> Outcome:
    import signal

    signal.setitimer(signal.ITIMER_REAL, CASE_TIMEOUT_S)
    try:
        return check.run_case(case)
    except CaseTimeout:
        return Outcome(skip="inconclusive: case exceeded the wall-clock backstop")
    finally:
        signal.setitimer(signal.ITIMER_REAL, 0)


def _run_unit(args) -> Acc:
    pid, kind, payload, tier, seed = args
    check = _load_check(pid)
    acc = Acc()
    try:
        if kind == "cases":
            for case in payload:
                acc.add(case, safe_run_case(check, case))
        elif kind == "enum":
            for case in check.unit_cases(payload):
                acc.add(case, safe_run_case(check, case))
        elif kind == "hyp":
            _run_hypothesis(check, tier, seed, payload, acc)
        elif kind == "custom":
            check.run_custom(payload, tier, seed, acc)
    except Exception:
        acc.harness_errors.append(f"{kind} unit {str(payload)[:200]}: " + traceback.format_exc())
    return acc


def _run_hypothesis(check, tier: str, seed: int, payload: dict, acc: Acc) -> None:
    import hypothesis
    from hypothesis import HealthCheck, Phase, given, settings

    shard, n_examples, profile = payload["shard"], payload["n"], payload.get("profile")
    strat = check.strategy(tier, profile) if profile is not None else check.strategy(tier)
    if strat is None or n_examples <= 0:
        return

    @hypothesis.seed(seed * 1000 + shard)
    @settings(
        max_examples=n_examples,
        database=None,
        deadline=None,
        derandomize=False,
        report_multiple_bugs=False,
        phases=[Phase.generate],
        suppress_health_check=[HealthCheck.too_slow, HealthCheck.data_too_large, HealthCheck.large_base_example],
    )
    @given(strat)
    def prop(case):
        try:
            acc.add(case, safe_run_case(check, case))
        except MemoryError:
            acc.skips["inconclusive: MemoryError outside the code under test"] += 1

    prop()


def run_atheris(target: str, runs: int, seed: int, corpus: str | None, max_len: int, timeout: float = 3000):
    """runs fuzz/<target> (atheris / libFuzzer) in a subprocess with a fresh corpus directory.
    -> (executions done, [violating inputs as bytes], note)"""
    import re
    import shutil
    import subprocess
    import tempfile

    from . import driver

    script = os.path.join(VERIF_ROOT, "fuzz", target)
    tmp = tempfile.mkdtemp(prefix="a816fuzz_")
    try:
        cdir = os.path.join(tmp, "corpus")
        os.makedirs(cdir)
        if corpus:
            for fn in os.listdir(corpus):
                shutil.copy(os.path.join(corpus, fn), cdir)
        outf = os.path.join(tmp, "violations.txt")
        env = dict(os.environ, FUZZ_OUT=outf, PYTHONDONTWRITEBYTECODE="1", PYTHONHASHSEED="0")
        deps = os.path.join(VERIF_ROOT, ".deps")
        if not os.path.isdir(deps):
            deps = "/verif/.deps"
        env["PYTHONPATH"] = deps + os.pathsep + env.get("PYTHONPATH", "")
        try:
            p = subprocess.run([driver.PYTHON, script, f"-runs={runs}", f"-seed={seed}", f"-max_len={max_len}", "-print_final_stats=1", cdir],
                               cwd=tmp, env=env, capture_output=True, timeout=timeout)
            text = (p.stdout + p.stderr).decode("utf-8", "replace")
        except subprocess.TimeoutExpired as e:
            text = ((e.stdout or b"") + (e.stderr or b"")).decode("utf-8", "replace") + "\nTIMEOUT"
        if "No module named 'atheris'" in text or "ModuleNotFoundError" in text and "atheris" in text:
            return 0, [], "atheris unavailable"
        m = re.search(r"number_of_executed_units:\s*(\d+)", text) or re.search(r"Done (\d+) runs", text)
        done = int(m.group(1)) if m else 0
        if not m:
            m2 = re.findall(r"#(\d+)\s", text)
            done = int(m2[-1]) if m2 else 0
        bad = []
        if os.path.exists(outf):
            with open(outf) as f:
                bad = [bytes.fromhex(ln.strip()) for ln in f if ln.strip()]
        return done, bad, ("timeout" if "TIMEOUT" in text else "")
    finally:
        shutil.rmtree(tmp, ignore_errors=True)


# ---------------------------------------------------------------------------------------------
# shrinking (structural delta debugging over JSON cases)


def _candidates(x: Any) -> Iterable[Any]:
    """smaller variants of a JSON value, most aggressive first."""
    if isinstance(x, list):
        n = len(x)
        if n > 0:
            # remove chunks
            size = n // 2
            while size >= 1:
                for i in range(0, n, size):
                    yield x[:i] + x[i + size:]
                if size == 1:
                    break
                size //= 2
            # hoist a child that has the same shape (list replaced by one of its list elements)
            for i, el in enumerate(x):
                for c in _candidates(el):
                    yield x[:i] + [c] + x[i + 1:]
    elif isinstance(x, dict):
        for k in list(x.keys()):
            v = x[k]
            if isinstance(v, (list, dict)) or (isinstance(v, (int, str)) and not isinstance(v, bool)):
                for c in _candidates(v):
                    d = dict(x)
                    d[k] = c
                    yield d
    elif isinstance(x, bool):
        if x:
            yield False
    elif isinstance(x, int):
        if x != 0:
            yield 0
            if abs(x) > 1:
                yield x // 2
                yield x - 1 if x > 0 else x + 1
            if x < 0:
                yield -x
    elif isinstance(x, str):
        n = len(x)
        if n > 0:
            yield ""
            if n > 1:
                yield x[: n // 2]
                yield x[n // 2:]
                yield x[:-1]
                yield x[1:]


def shrink(case: Any, still_fails: Callable[[Any], bool], budget_s: float) -> Any:
    t_end = time.time() + budget_s
    best = case
    best_size = case_size(best)
    improved = True
    tried: set[int] = set()
    while improved and time.time() < t_end:
        improved = False
        for cand in _candidates(best):
            if time.time() > t_end:
                break
            sz = case_size(cand)
            if sz >= best_size:
                continue
            h = case_hash(cand)
            if h in tried:
                continue
            tried.add(h)
            try:
                ok = still_fails(cand)
            except Exception:
                ok = False
            if ok:
                best, best_size = cand, sz
                improved = True
                break
    return best


def _shrink_bucket(args) -> dict:
    pid, bucket, budget = args
    check = _load_check(pid)
    sig = bucket["sig"]

    def still_fails(c) -> bool:
        out = check.run_case(c)
        return any(v.sig == sig for v in out.violations)

    try:
        # re-derive the minimal sub-case reported by run_case itself first
        best = shrink(bucket["case"], still_fails, budget)
        out = check.run_case(best)
        for v in out.violations:
            if v.sig == sig:
                bucket = dict(bucket, case=best, detail=v.detail)
                break
    except Exception:
        bucket = dict(bucket, detail=bucket.get("detail", "") + "\n[shrink failed: %s]" % traceback.format_exc()[-500:])
    return bucket


# ---------------------------------------------------------------------------------------------
# known findings


def load_known(pid: str) -> tuple[list[dict], list[str]]:
    path = os.path.join(VERIF_ROOT, "known_findings.json")
    if not os.path.exists(path):
        return [], []
    with open(path, encoding="utf-8") as f:
        data = json.load(f)
    opens = [e for e in data.get("open", []) if e.get("property") == pid]
    fixed = [e for e in data.get("fixed", []) if f"property={pid} " in e]
    return opens, fixed


def match_known(sig: str, opens: list[dict]) -> dict | None:
    import re

    for e in opens:
        if "sig" in e and e["sig"] == sig:
            return e
        if "sig_regex" in e and re.fullmatch(e["sig_regex"], sig):
            return e
    return None


# ---------------------------------------------------------------------------------------------
# main


def _slug(sig: str) -> str:
    import re

    s = re.sub(r"[^A-Za-z0-9_.-]+", "_", sig)[:80].strip("_")
    return s + "_" + hashlib.blake2b(sig.encode(), digest_size=4).hexdigest()


def main(argv: list[str] | None = None) -> int:
    ap = argparse.ArgumentParser()
    ap.add_argument("property")
    ap.add_argument("--tier", default=os.environ.get("VERIF_TIER", "quick"), choices=["quick", "thorough"])
    ap.add_argument("--replay", default=None)
    ap.add_argument("--seed", type=int, default=None)
    ap.add_argument("--no-shrink", action="store_true")
    ap.add_argument("--scale", type=float, default=float(os.environ.get("VERIF_SCALE", "1")))
    args = ap.parse_args(argv)
    if args.replay:
        args.replay = os.path.abspath(args.replay)
    pid = args.property.upper()
    seed = args.seed if args.seed is not None else int(os.environ.get("VERIF_SEED", "1") or "1")
    tier = args.tier
    os.environ["VERIF_TIER_EFFECTIVE"] = tier
    t0 = time.time()

    try:
        check = _load_check(pid)
    except Exception:
        traceback.print_exc()
        print(f"HARNESS-ERROR property={pid} cannot import check")
        return 2

    from . import driver

    driver.init_worker()

    # ---- oracle self tests (never touch a816) ------------------------------------------------
    try:
        if hasattr(check, "selftest"):
            check.selftest()
    except Exception:
        traceback.print_exc()
        print(f"HARNESS-ERROR property={pid} oracle self-test failed")
        return 2

    opens, fixed = load_known(pid)

    # ---- replay mode ----------------------------------------------------------------------------
    if args.replay:
        with open(args.replay, encoding="utf-8") as f:
            data = json.load(f)
        case = data["case"] if isinstance(data, dict) and "case" in data else data
        out = check.run_case(case)
        rc = 0
        if out.skip:
            print(f"replay: case skipped ({out.skip})")
        for v in out.violations:
            k = match_known(v.sig, opens)
            if k:
                print(f"KNOWN-FINDING: property={pid} {k['what']}")
            else:
                print(f"violation signature: {v.sig}\n{v.detail}")
                print(f"VIOLATION property={pid} replay={os.path.abspath(args.replay)}")
                rc = 1
        if not out.violations:
            print("replay: property holds on this case")
        return rc

    # ---- build work units -----------------------------------------------------------------------
    units: list[tuple] = []
    regress_dir = os.path.join(VERIF_ROOT, "regress", pid)
    regress_cases = []
    if os.path.isdir(regress_dir):
        for fn in sorted(os.listdir(regress_dir)):
            if fn.endswith(".json"):
                with open(os.path.join(regress_dir, fn), encoding="utf-8") as f:
                    d = json.load(f)
                regress_cases.append(d["case"] if isinstance(d, dict) and "case" in d else d)
    if regress_cases:
        per = max(1, (len(regress_cases) + NPROC - 1) // NPROC)
        for i in range(0, len(regress_cases), per):
            units.append((pid, "cases", regress_cases[i:i + per], tier, seed))
    n_regress = len(regress_cases)

    exhaustive = None
    if hasattr(check, "enum_units"):
        eu = check.enum_units(tier, seed)
        if isinstance(eu, dict):
            exhaustive = eu.get("exhaustive")
            eu = eu["units"]
        for u in eu:
            units.append((pid, "enum", u, tier, seed))
    if hasattr(check, "custom_units"):
        for u in check.custom_units(tier, seed):
            units.append((pid, "custom", u, tier, seed))
    if hasattr(check, "strategy"):
        plan = check.hyp_plan(tier) if hasattr(check, "hyp_plan") else [{"profile": None, "n": check.hyp_examples(tier)}]
        shard_id = 0
        for item in plan:
            total = int(item["n"] * args.scale)
            nshards = min(NPROC, max(1, total // getattr(check, 'SHARD_MIN', 20))) if total > 0 else 0
            for s in range(nshards):
                n = total // nshards + (1 if s < total % nshards else 0)
                units.append((pid, "hyp", {"shard": shard_id, "n": n, "profile": item.get("profile")}, tier, seed))
                shard_id += 1

    # ---- run -------------------------------------------------------------------------------------
    total = Acc()
    import atexit
    import concurrent.futures as cf
    import shutil
    import tempfile

    # one scratch root per run: pool workers leave through os._exit and never run their own cleanup
    tmproot = tempfile.mkdtemp(prefix="a816verif_run_")
    os.environ["VERIF_TMPROOT"] = tmproot
    owner = os.getpid()
    atexit.register(lambda: os.getpid() == owner and shutil.rmtree(tmproot, ignore_errors=True))

    ctx = mp.get_context("fork")
    pool = cf.ProcessPoolExecutor(NPROC, mp_context=ctx, initializer=_worker_init, initargs=(pid,))
    unknown, known_hits = [], collections.OrderedDict()
    try:
        futs = [pool.submit(_run_unit, u) for u in units]
        for fut in cf.as_completed(futs):
            try:
                total.merge(fut.result())
            except Exception as e:  # BrokenProcessPool: a worker died (killed by the OS)
                total.harness_errors.append(f"worker failure: {type(e).__name__}: {e}")
        harness_failed = bool(total.harness_errors)

        # ---- triage: known / unknown, shrink unknown ---------------------------------------------
        for sig, b in sorted(total.viol.items()):
            k = match_known(sig, opens)
            if k:
                kh = known_hits.setdefault(k["id"], {"entry": k, "count": 0, "sigs": []})
                kh["count"] += b["count"]
                kh["sigs"].append(sig)
            else:
                unknown.append(b)
        if unknown and not args.no_shrink:
            budget = 40.0 if tier == "quick" else 240.0
            budget = max(5.0, min(budget, budget * 16 / max(16, len(unknown))))
            try:
                unknown = list(pool.map(_shrink_bucket, [(pid, b, budget) for b in unknown[:200]])) + unknown[200:]
            except Exception as e:
                total.harness_errors.append(f"shrink failure: {type(e).__name__}: {e}")
        clean = True
    except BaseException:
        clean = False
        raise
    finally:
        procs = list((getattr(pool, "_processes", None) or {}).values())
        if locals().get("clean"):
            try:
                pool.shutdown(wait=True)
            except Exception:
                pass
        else:
            pool.shutdown(wait=False, cancel_futures=True)
            for p in procs:
                try:
                    p.kill()
                except Exception:
                    pass

    # ---- report -----------------------------------------------------------------------------------
    rc = 0
    for kid, kh in known_hits.items():
        print(f"KNOWN-FINDING: property={pid} {kh['entry']['what']} [{kh['count']} case(s)]")
    out_root = os.environ.get("VERIF_OUT", VERIF_ROOT)
    replay_dir = os.path.join(out_root, "replays", pid)
    for b in unknown:
        os.makedirs(replay_dir, exist_ok=True)
        path = os.path.join(replay_dir, _slug(b["sig"]) + ".json")
        with open(path, "w", encoding="utf-8") as f:
            json.dump({"property": pid, "sig": b["sig"], "detail": b["detail"], "count": b["count"],
                       "case": b["case"], "seed": seed, "tier": tier}, f, indent=1, default=str)
        print(f"--- {pid} violation [{b['sig']}] ({b['count']} case(s))\n{b['detail']}")
        print(f"VIOLATION property={pid} replay={path}")
        rc = 1

    floor_msgs = []
    if hasattr(check, "ESSENTIAL") and total.cases > 0:
        denom_label = getattr(check, "ESSENTIAL_DENOM", None)
        denom = total.labels.get(denom_label, 0) if denom_label else total.cases
        for lab, floor in check.ESSENTIAL.items():
            frac = total.labels.get(lab, 0) / max(1, denom)
            if frac < floor:
                floor_msgs.append(f"label {lab!r}: {frac:.3f} < floor {floor}")

    distinct_nt = len(total.nt_hashes) + total.nt_bulk
    wall = time.time() - t0
    cov = {
        "evaluations": total.evals,
        "distinct_nontrivial": distinct_nt,
        "rule": check.RULE,
        "samples": [{"class": k, "case": v} for k, v in (sorted(total.samples, key=lambda kv: str(kv[0]))[::max(1, len(total.samples) // 14)] + total.trivial_samples)[:16]] or ["<no sample recorded>"],
        "cases_generated": total.cases,
        "regress_replayed": n_regress,
        "label_histogram": dict(sorted(total.labels.items())),
        "skipped": dict(total.skips),
        "excluded_known": {kid: kh["count"] for kid, kh in known_hits.items()},
        "violation_buckets": [b["sig"] for b in unknown],
        "generator_floor_failures": floor_msgs,
        "repo": REPO_ROOT,
    }
    if exhaustive is not None:
        cov["exhaustive"] = bool(exhaustive)
    if hasattr(check, "coverage_extra"):
        try:
            extra = check.coverage_extra(tier, total)
            if extra.get("generator_floor_failures"):
                floor_msgs += extra.pop("generator_floor_failures")
                cov["generator_floor_failures"] = floor_msgs
            cov.update(extra)
            cov["label_histogram"] = dict(sorted(total.labels.items()))
        except Exception:
            traceback.print_exc()
    evidence = {
        "property_id": pid,
        "tier": tier,
        "seed": seed,
        "level": check.LEVEL,
        "coverage": cov,
        "assumptions": list(getattr(check, "ASSUMPTIONS", [])),
        "wall_s": round(wall, 2),
        "violations": len(unknown),
    }
    os.makedirs(os.path.join(out_root, "evidence"), exist_ok=True)
    with open(os.path.join(out_root, "evidence", f"{pid}.json"), "w", encoding="utf-8") as f:
        json.dump(evidence, f, indent=1, default=str)

    if harness_failed:
        for e in total.harness_errors[:5]:
            print(e[-3000:], file=sys.stderr)
        print(f"HARNESS-ERROR property={pid} {len(total.harness_errors)} work unit(s) failed")
        return 1 if rc == 1 else 2
    if floor_msgs and rc == 0:
        print(f"HARNESS-ERROR property={pid} generator regression: " + "; ".join(floor_msgs))
        return 2
    inconclusive = sum(v for k, v in total.skips.items() if k.startswith("inconclusive"))
    print(f"{pid} {tier} seed={seed}: {total.evals} evaluations, {distinct_nt} distinct non-trivial, "
          f"{len(unknown)} violation bucket(s), {len(known_hits)} known finding(s), {wall:.1f}s"
          + (f", {inconclusive} case(s) INCONCLUSIVE (wall-clock backstop)" if inconclusive else ""))
    return rc
