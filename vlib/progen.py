"""Program generator: builds IR (vlib/model/refasm.py statement kinds) by construction from a seeded
random.Random.  Two phases: a *skeleton* (statement kinds, nesting, every label / scope / macro name)
and a *fill* pass that writes expressions with full knowledge of all planned names, so references can
be forward or backward, shadowing and sibling reuse can be requested, and definitions precede uses
where the assembler needs that (`:=`, `=`, macros).
"""
from __future__ import annotations

import json
import os

from . import VERIF_ROOT
from .model import busmodel, expr as X

_SUPPORTED = None


def supported_cells():
    global _SUPPORTED
    if _SUPPORTED is None:
        with open(os.path.join(VERIF_ROOT, "checks", "supported_set.json"), encoding="utf-8") as f:
            cells = [tuple(c) for c in json.load(f)["cells"]]
        _SUPPORTED = {"imp": [c for c in cells if c[1] == "imp"], "op": [c for c in cells if c[1] != "imp"]}
        _SUPPORTED["allw"] = sorted({c[0] for c in cells if c[1] == "" and c[2] is None and c[3] is None and c[4] == 3}
                                    & {c[0] for c in cells if c[1] == "" and c[2] is None and c[3] is None and c[4] == 1})
    return _SUPPORTED


class Profile:
    def __init__(self, **kw):
        self.max_stmts = 14
        self.max_depth = 3
        self.instructions = True
        self.data = True
        self.ascii = True
        self.incbin = True
        self.big_incbin = True
        self.consts = True
        self.blocks = True
        self.scopes = True
        self.macros = True
        self.code_args = True
        self.recursion = True
        self.loops = True
        self.ifs = True
        self.orgs = True
        self.reloc_rom = True
        self.reloc_ram = True
        self.branches = True
        self.unsized_literals = True
        self.unsized_symbols = False   # C02 only: width inferred from symbol values
        self.unsized_params = True     # unsized operands that use a macro parameter / a scaled loop variable (width differs per expansion)
        self.shadowing = False         # C02/C08: small name pool, inner redefinitions
        self.param_named_consts = False  # C09: call-site names equal to parameter names
        self.self_pointers = True
        self.includes = False
        self.defines = {}              # C12: names given with -D (expansion-time integers)
        self.text = False
        self.edge_weight = 0.45
        self.call_weight = 3
        self.scope_weight = 1
        self.lc_prob = 0.1            # shadowing profile: probability that a label is named like a := constant
        self.org_weight = 2
        self.block_weight = 2
        self.min_calls = 0
        self.loop_weight = 1
        self.if_weight = 2
        self.mnemonic_macro_names = 0.08  # macros named like a mnemonic
        self.ascii_nonascii = 0.06     # .ascii strings that contain a character without an ASCII byte
        self.wide_consts = 0.15        # constants >= 2^24 or negative
        self.empty_prob = 0.1          # a block / scope / loop / branch / macro body with no statement at all
        self.lead_reloc = 0.04         # the program starts with @= instead of *=
        self.org_here = 0.15           # `*=` to a label defined right before it (the current address)
        self.pos_expr = 0.35           # *= / @= targets inside macro bodies and loops that depend on a parameter / the loop variable
        for k, v in kw.items():
            if not hasattr(self, k):
                raise AttributeError(k)
            setattr(self, k, v)


class GS:
    """generator-side scope"""

    def __init__(self, parent, kind):
        self.parent = parent
        self.kind = kind  # root block named macro loop
        self.labels: list[str] = []       # planned labels of this scope
        self.exports: list[str] = []      # sc.name visible in this scope
        self.eq: list[str] = []           # `=` constants defined so far (fill pass)
        self.xc: dict[str, int] = {}      # `:=` constants defined so far -> value
        self.consts: list[str] = []       # every constant name defined in this scope (duplicate avoidance)
        self.inline_names: set[str] = set()  # names defined in .if branches written in this scope (same assembler scope)
        self.refs: set[str] = set()          # constant names already referenced from this scope or below it
        self.scope_names: set[str] = set()   # named scopes written directly in this scope
        self.lc_pending: set[str] = set()    # labels named like a := constant, not written yet (fill pass)
        self.params: list[str] = []
        self.wide: str | None = None      # macro parameter used in unsized operands (arguments of several width classes)
        self.loopvar: tuple | None = None


class ProgGen:
    def __init__(self, rng, profile: Profile, rom: str = "low", usermap=None):
        self.rng = rng
        self.p = profile
        self.rom = rom
        self.usermap = usermap
        self.bus = busmodel.usermap(usermap) if usermap else busmodel.builtin(rom)
        self.n_label = 0
        self.n_const = 0
        self.n_scope = 0
        self.n_file = 0
        self.files: dict = {}
        self.macros: list[dict] = []
        self.budget = profile.max_stmts
        self.in_ram = False

    # ---- names -------------------------------------------------------------------------------------
    def fresh_label(self, gs: GS) -> str:
        if self.p.shadowing and self.rng.random() < 0.8:
            pool = [f"lb_{c}" for c in "abcd"]
            real = gs
            while real.kind == "ifbranch" and real.parent is not None:
                real = real.parent
            taken = set(gs.labels) | set(real.labels) | real.inline_names
            cand = [n for n in pool if n not in taken]
            if cand:
                return self.rng.choice(cand)
        self.n_label += 1
        return f"lb_{self.n_label}"

    def fresh_const(self, gs: GS | None = None, eager: bool = True) -> str:
        if self.p.shadowing and gs is not None and self.rng.random() < 0.8:
            pool = [("kx_" if eager else "ke_") + c for c in "abc"]
            real = gs
            while real.kind == "ifbranch" and real.parent is not None:
                real = real.parent
            # a constant must not be (re)defined in a scope after something in that scope already referred to the
            # outer constant of the same name ("= / := constants are not referenced before their definition")
            taken = set(gs.consts) | set(real.consts) | real.inline_names | gs.refs | real.refs | set(gs.labels) | set(real.labels)
            cand = [n for n in pool if n not in taken]
            if cand:
                return self.rng.choice(cand)
        self.n_const += 1
        return f"k_{self.n_const}"

    def _note_ref(self, gs: GS, t) -> None:
        names = [n for n in X.idents(t) if n.startswith(("kx_", "ke_"))]
        if names:
            s_ = gs
            while s_ is not None:
                s_.refs.update(names)
                s_ = s_.parent

    def _note_inline(self, gs: GS, name: str) -> None:
        s_ = gs
        while s_.kind == "ifbranch" and s_.parent is not None:
            s_ = s_.parent
            s_.inline_names.add(name)

    # ---- addresses ---------------------------------------------------------------------------------
    def rom_address(self) -> int:
        rng = self.rng
        r = rng.choice(self.bus.rom_ranges())
        nb = self.bus.range_bytes(r) // r.size
        bank = r.first + rng.randint(0, max(0, nb - 4))
        k = rng.random()
        if rng.random() < 0.06:
            # the very first byte of the range (file offset 0) and its neighbours
            return (r.first << 16) | (r.win_lo + rng.choice([0, 0, 0, 1, 2]))
        if k < self.p.edge_weight:
            off = r.win_hi - rng.randint(0, 6)
        elif k < self.p.edge_weight + 0.15:
            off = r.win_lo + rng.randint(0, 3)
        else:
            off = rng.randint(r.win_lo, r.win_hi)
        return (bank << 16) | off

    def position(self, gs: GS, a: int, prob=None):
        """the target of a *= / @=: mostly the literal address; inside macro bodies and loops sometimes an
        expression over a parameter / the loop variable, so that every expansion moves somewhere else"""
        rng = self.rng
        names = []
        s_ = gs
        while s_ is not None:
            if s_.loopvar:
                names.append(s_.loopvar[0])
            if s_.kind == "macro":
                names += s_.params
                break
            s_ = s_.parent
        if not names or rng.random() >= (self.p.pos_expr if prob is None else prob):
            return a
        r = self.bus.range_of(a)
        if r is None:
            return a
        hi = 0xFFFF if r.ram else r.win_hi
        lo = 0 if r.ram else r.win_lo
        step = rng.choice([1, 3, 4, 0x10])
        span = 0x3F * step + 0x40
        if (a & 0xFFFF) + span > hi:
            a -= span + rng.randint(0, 0x40)
        if (a & 0xFFFF) < lo:
            return a + span
        return ["bin", "+", ["lit", a, "x"], ["bin", "*", ["bin", "&", ["id", rng.choice(names)], ["lit", 0x3F, "x"]], ["lit", step, "d"]]]

    def ram_address(self) -> int:
        rng = self.rng
        if self.usermap:
            r = rng.choice(self.bus.ram_ranges())
            bank = rng.randint(r.first, r.last)
            return (bank << 16) | (0xFFFF - rng.randint(0, 5) if rng.random() < 0.3 else rng.randint(0, 0xFF00))
        k = rng.random()
        if k < 0.3:
            return 0x7EFFFF - rng.randint(0, 5)
        return rng.choice([0x7E0000, 0x7F0000]) | rng.randint(0, 0xFF00)

    # ---- skeleton -------------------------------------------------------------------------------------
    def kinds(self, depth: int, in_macro: bool, in_loop: bool):
        p = self.p
        ks = []
        if p.instructions:
            ks += ["ins"] * 5
        if p.data:
            ks += ["data"] * 4
        if p.ascii:
            ks += ["ascii"]
        if p.incbin and not in_macro and not in_loop:
            ks += ["incbin"]
        if p.text:
            ks += ["text"] * 2
            if depth > 0:
                ks += ["table"]  # a body that selects a character table of its own (for the rest of that body)
        ks += ["label"] * 3
        if p.self_pointers:
            ks += ["selfptr"] * 2
        if p.consts:
            ks += ["const"] * 2
        if p.orgs and not in_macro and not in_loop:
            ks += ["org"] * p.org_weight
        if (p.reloc_rom or p.reloc_ram) and not in_macro and not in_loop:
            ks += ["reloc"]
        if p.orgs and p.pos_expr and (in_macro or in_loop):
            # moves inside bodies that are expanded several times (mostly to a target that depends on the expansion)
            ks += ["org"]
            if p.reloc_rom:
                ks += ["reloc_rom"]
        if depth < p.max_depth:
            if p.blocks:
                ks += ["block"] * p.block_weight
            if p.scopes and not in_macro:
                ks += ["scope"] * p.scope_weight
            if p.loops:
                ks += ["for"] * p.loop_weight
            if p.ifs:
                ks += ["if"] * p.if_weight
            if p.macros and self.macros:
                ks += ["call"] * p.call_weight
        return ks

    def nbody(self, lo: int, hi: int) -> int:
        return 0 if self.rng.random() < self.p.empty_prob else self.rng.randint(lo, hi)

    def skeleton(self, gs: GS, n: int, depth: int, in_macro=False, in_loop=False, allow_calls=None):
        rng = self.rng
        out = []
        ks = self.kinds(depth, in_macro, in_loop)
        for _ in range(n):
            if self.budget <= 0:
                break
            self.budget -= 1
            k = rng.choice(ks)
            if k == "call" and allow_calls is not None and not allow_calls:
                k = "data"
            node = {"k": k}
            if k in ("label", "selfptr"):
                node["n"] = self.fresh_label(gs)
                if self.p.shadowing and not in_macro and gs.kind in ("block", "named", "loop") and rng.random() < self.p.lc_prob:
                    # a label that shadows a := constant of an enclosing scope: from its statement on, the name means the
                    # label (known at layout time only) in this scope and below
                    cand = [n_ for n_ in ("kx_a", "kx_b", "kx_c") if n_ not in gs.labels and n_ not in gs.consts and n_ not in gs.inline_names and n_ not in gs.refs]
                    if cand:
                        node["n"] = rng.choice(cand)
                        gs.lc_pending.add(node["n"])
                gs.labels.append(node["n"])
                self._note_inline(gs, node["n"])
            elif k in ("block", "for"):
                child = GS(gs, "block" if k == "block" else "loop")
                node["gs"] = child
                node["b"] = self.skeleton(child, self.nbody(1, 4), depth + 1, in_macro, in_loop or k == "for", allow_calls)
            elif k == "scope":
                self.n_scope += 1
                child = GS(gs, "named")
                node["n"] = f"sc_{self.n_scope}"
                if self.p.shadowing and rng.random() < 0.6:
                    # the same scope name at different nesting levels / in sibling scopes (never twice in one scope)
                    real = gs
                    while real.kind == "ifbranch" and real.parent is not None:
                        real = real.parent
                    cand = [n_ for n_ in ("sc_a", "sc_b", "sc_c") if n_ not in real.scope_names]
                    if cand:
                        node["n"] = rng.choice(cand)
                        real.scope_names.add(node["n"])
                node["gs"] = child
                node["b"] = self.skeleton(child, self.nbody(1, 4), depth + 1, in_macro, in_loop, allow_calls)
                gs.exports += [f"{node['n']}.{l}" for l in child.labels]
            elif k == "if":
                # labels planned inside a branch only exist when it is assembled: they are visible to the
                # branch itself only (generator-side pseudo scope; the assembler puts them in the enclosing scope)
                node["gs_t"], node["gs_e"] = GS(gs, "ifbranch"), GS(gs, "ifbranch")
                node["certain"] = rng.random() < 0.3
                if node["certain"]:
                    # literal non-zero condition: the branch is written out by hand in the equivalent program, so its
                    # names belong to (and are referenced from) the enclosing scope
                    node["gs_t"] = gs
                node["t"] = self.skeleton(node["gs_t"], self.nbody(1, 3), depth + 1, in_macro, in_loop, allow_calls)
                node["e"] = self.skeleton(node["gs_e"], self.nbody(1, 2), depth + 1, in_macro, in_loop, allow_calls) if rng.random() < 0.5 else None
            elif k == "call":
                node["m"] = rng.choice(self.macros if allow_calls is None else allow_calls)
            out.append(node)
        return out

    def plan_macros(self):
        rng = self.rng
        if not self.p.macros:
            return []
        defs = []
        for i in range(rng.randint(1, 3)):
            name = f"m_{'abc'[i]}"
            if rng.random() < self.p.mnemonic_macro_names:
                # a macro may be called like an instruction: `rep(...)` is an application, `rep #0x30` the instruction
                free = [n for n in ("rep", "dec", "inc", "and", "bit", "sep", "nop", "lda", "REP") if n not in [m["n"] for m in self.macros]]
                name = rng.choice(free) if free else name
            nparams = rng.randint(0, 3)
            params = [f"p_{'abc'[i]}{c}" for c in "xyz"[:nparams]]  # unique per macro
            gs = GS(self.root, "macro")
            gs.params = params
            code_params = [q for q in params if self.p.code_args and rng.random() < 0.25]
            m = {"n": name, "ps": params, "code_ps": code_params, "gs": gs, "rec": False, "wide": None}
            plain = [q for q in params if q not in code_params]
            if self.p.unsized_params and plain and rng.random() < 0.5:
                m["wide"] = rng.choice(plain)
                gs.wide = m["wide"]
            saved = self.budget
            self.budget = self.nbody(2, 5)
            m["b"] = self.skeleton(gs, self.budget, 1, in_macro=True, allow_calls=list(self.macros))
            self.budget = saved
            if self.p.recursion and params and params[0] not in code_params and m["wide"] != params[0] and rng.random() < 0.3:
                m["rec"] = True
            self.macros.append(m)
            defs.append(m)
        return defs

    # ---- fill ----------------------------------------------------------------------------------------
    def blocked(self, gs: GS) -> set:
        """names that must not be mentioned here yet: a label named like a constant is planned in an enclosing scope but
        its statement has not been written (before it, the assembler still sees the outer constant at expansion time)"""
        out, s = set(), gs
        while s is not None:
            out |= s.lc_pending
            s = s.parent
        return out

    def label_consts(self, gs: GS) -> set:
        out, s = set(), gs
        while s is not None:
            out |= {n for n in s.labels if n.startswith("kx_")}
            s = s.parent
        return out

    def visible_labels(self, gs: GS) -> list[str]:
        return [n for n in self._visible_labels(gs) if n not in self.blocked(gs)]

    def _visible_labels(self, gs: GS) -> list[str]:
        names = []
        s = gs
        while s is not None:
            names += s.labels + s.exports
            if s.kind == "macro":
                # a macro body only sees its own names and the top level (call sites vary)
                names += self.root.labels + self.root.exports
                break
            s = s.parent
        return names

    def visible_eq(self, gs: GS) -> list[str]:
        names, s = [], gs
        while s is not None:
            names += s.eq
            if s.kind == "macro":
                names += self.root.eq
                break
            s = s.parent
        return names

    def visible_x(self, gs: GS) -> dict[str, int]:
        vals, s = {}, gs
        chain = []
        while s is not None:
            chain.append(s)
            if s.kind == "macro":
                chain.append(self.root)
                break
            s = s.parent
        for s in reversed(chain):
            vals.update(s.xc)
        hide = self.blocked(gs) | self.label_consts(gs)
        return {k: v for k, v in vals.items() if k not in hide}

    def lit(self, lo=0, hi=0xFFFF):
        rng = self.rng
        v = rng.randint(lo, hi)
        if rng.random() < 0.3:
            v = rng.choice([b for b in (0, 1, 0x7F, 0x80, 0xFF, 0x100, 0x1234, 0xFFFF, 0x10000, 0xFFFFFF) if lo <= b <= hi] or [lo])
        return ["lit", v, rng.choice(["d", "x", "x", "X", "b"])]

    def value_expr(self, gs: GS, allow_labels=True, allow_eq=True, params=True, depth=0):
        t = self._value_expr(gs, allow_labels, allow_eq, params, depth)
        if depth == 0 and self.p.shadowing:
            self._note_ref(gs, t)
        return t

    def _value_expr(self, gs: GS, allow_labels=True, allow_eq=True, params=True, depth=0):
        """an expression over names visible in gs (layout-time allowed)"""
        rng = self.rng
        atoms = []
        if allow_labels:
            atoms += [["id", n] for n in self.visible_labels(gs)]
        if allow_eq:
            atoms += [["id", n] for n in self.visible_eq(gs)]
        atoms += [["id", n] for n in self.visible_x(gs)]
        s = gs
        while s is not None:
            if params:
                atoms += [["id", q] for q in s.params if q not in getattr(s, "code_params", [])]
            if s.loopvar:
                atoms.append(["id", s.loopvar[0]])
            s = s.parent
        k = rng.random()
        if not atoms or k < 0.3:
            base = self.lit(0, 0xFFFFFF if rng.random() < 0.3 else 0xFFFF)
        else:
            base = rng.choice(atoms)
        if depth < 2 and rng.random() < 0.4:
            op = rng.choice(["+", "-", "&", "*", ">>", "<<"])
            if op in (">>", "<<"):
                rhs = ["lit", rng.choice([1, 4, 8, 16]), "d"]
            elif op == "*":
                rhs = ["lit", rng.choice([1, 2, 3]), "d"]
            elif op == "&":
                rhs = ["lit", rng.choice([0xFF, 0xFFFF, 0xFF00, 0xFFFFFF]), "x"]
            else:
                rhs = self._value_expr(gs, allow_labels, allow_eq, params, depth + 1) if rng.random() < 0.3 else self.lit(0, 300)
            return ["bin", op, base, rhs]
        return base

    def x_expr(self, gs: GS, small=False):
        t, v = self._x_expr(gs, small)
        if self.p.shadowing:
            self._note_ref(gs, t)
        return t, v

    def _x_expr(self, gs: GS, small=False):
        """expansion-time expression (literals, := constants, loop variables) and its value"""
        rng = self.rng
        vals = dict(self.visible_x(gs))
        s = gs
        while s is not None:
            if s.loopvar:
                vals[s.loopvar[0]] = s.loopvar[1]
            s = s.parent
        if vals and rng.random() < 0.5:
            n = rng.choice(sorted(vals))
            t = ["id", n]
        else:
            t = ["lit", rng.randint(0, 6) if small else rng.choice([0, 1, 2, 5, 0x80, 0x1234]), "d"]
        if rng.random() < 0.3:
            t = ["bin", rng.choice(["+", "*", "&"]), t, ["lit", rng.randint(0, 3), "d"]]
        try:
            v = X.evaluate(t, vals)
        except X.Undefined:
            t, v = ["lit", 1, "d"], 1
        return t, v

    def instruction(self, gs: GS):
        rng = self.rng
        sup = supported_cells()
        if rng.random() < 0.2:
            c = rng.choice(sup["imp"])
            return {"k": "ins", "m": c[0], "shape": ["imp", None, None], "sfx": "", "e": None}
        if self.p.branches and not self.in_ram and rng.random() < 0.12:
            near = gs.labels[-3:] or gs.labels
            if near:
                return {"k": "ins", "m": rng.choice(["bra", "bne", "beq", "bcc", "bcs", "bmi", "bpl"]), "shape": ["", None, None], "sfx": "",
                        "e": ["id", rng.choice(near)]}
        if self.p.unsized_params:
            s_, wide, lv = gs, None, None
            while s_ is not None:
                wide = wide or s_.wide
                lv = lv or s_.loopvar
                s_ = s_.parent
            if wide and rng.random() < 0.3:
                # the width of this instruction differs from one application to the next
                m_ = rng.choice(sup["allw"])
                return {"k": "ins", "m": m_, "shape": ["", None, None], "sfx": "", "e": ["id", wide]}
            if lv and rng.random() < 0.15:
                m_ = rng.choice(sup["allw"])
                e = ["bin", "*", ["id", lv[0]], ["lit", rng.choice([0x40, 0x80, 0x4000, 0x8000]), "x"]]
                return {"k": "ins", "m": m_, "shape": ["", None, None], "sfx": "", "e": e}
        k = rng.random()
        if self.p.unsized_symbols and rng.random() < 0.12:
            # any mnemonic / shape with an unsized operand of ANY magnitude: the cell for the inferred width may not
            # exist -- then the assembly has to fail, not to emit another width than the one the labels were laid out with
            c = rng.choice(sup["op"])
            lo, hi = rng.choice([(0, 0xFF), (0, 0xFF), (0x100, 0xFFFF), (0x10000, 0xFFFFFF)])
            xs = {n: v for n, v in self.visible_x(gs).items() if lo <= v <= hi}
            e = ["id", rng.choice(sorted(xs))] if xs and rng.random() < 0.4 else self.lit(lo, hi)
            return {"k": "ins", "m": c[0], "shape": [c[1], c[2], c[3]], "sfx": "", "e": e}
        if self.p.unsized_symbols and k < 0.35:
            m = rng.choice(sup["allw"])
            atoms = self.visible_labels(gs) + self.visible_eq(gs) + sorted(self.visible_x(gs))
            if atoms:
                e = ["id", rng.choice(atoms)]
                if rng.random() < 0.3:
                    e = ["bin", rng.choice(["+", "-", "&"]), e, ["lit", rng.choice([1, 0xFF, 0xFFFF, 0x100]), "x"]]
                return {"k": "ins", "m": m, "shape": ["", None, None], "sfx": "", "e": e}
        if self.p.unsized_literals and k < 0.3:
            c = rng.choice(sup["op"])
            w = c[4]
            lo, hi = {1: (0, 0xFF), 2: (0x100, 0xFFFF), 3: (0x10000, 0xFFFFFF)}[w]
            xs = {n: v for n, v in self.visible_x(gs).items() if lo <= v <= hi}
            if xs and rng.random() < 0.4 and c[0] in sup["allw"] and c[1] == "" and not c[2] and not c[3]:
                e = ["id", rng.choice(sorted(xs))]
            else:
                e = self.lit(lo, hi)
            return {"k": "ins", "m": c[0], "shape": [c[1], c[2], c[3]], "sfx": "", "e": e}
        c = rng.choice(sup["op"])
        w = c[4]
        e = self.value_expr(gs)
        if w == 3:
            e = ["bin", "&", e, ["lit", 0xFFFFFF, "x"]] if e[0] != "id" or rng.random() < 0.3 else e
        return {"k": "ins", "m": c[0], "shape": [c[1], c[2], c[3]], "sfx": {1: "b", 2: "w", 3: "l"}[w], "e": e}

    def fill(self, nodes, gs: GS, depth=0):
        rng = self.rng
        out = []
        for node in nodes:
            k = node["k"]
            if k in ("label", "selfptr"):
                gs.lc_pending.discard(node["n"])
            if k == "label":
                out.append({"k": "label", "n": node["n"]})
            elif k == "selfptr":
                out.append({"k": "label", "n": node["n"]})
                out.append({"k": "data", "d": "dl", "es": [["id", node["n"]]]})
            elif k == "ins":
                out.append(self.instruction(gs))
            elif k == "data":
                d = rng.choice(["db", "dw", "dl", "pointer"])
                out.append({"k": "data", "d": d, "es": [self.value_expr(gs) for _ in range(rng.choice([1, 1, 2, 3, 6]))]})
            elif k == "ascii":
                txt = "".join(rng.choice("abcXYZ 019;{}#,.\t") for _ in range(rng.randint(1, 12)))
                if rng.random() < self.p.ascii_nonascii:
                    # characters without an ASCII byte (what is emitted for them is not specified; that the directive occupies
                    # what it emits is): the reference model leaves such programs to the model-free oracles
                    i = rng.randint(0, len(txt))
                    txt = txt[:i] + rng.choice(["\u00e9", "\u00dc", "\u00bd", "\u6f22"]) + txt[i:]
                out.append({"k": "ascii", "s": txt})
            elif k == "text":
                # table-encoded text: multi-character entries, multi-byte codes, unknown characters and [0xNN] escapes make
                # the emitted length differ from the number of characters written
                parts = []
                for _ in range(rng.randint(1, 8)):
                    parts.append(rng.choice(["a", "b", "ab", "the ", "~", "Z", "?", " ", "[0x7f]", "[0x1]", "abc", "x", "\u00e9", "\u00df\u00e9", "\u6f22", "\u00fc", "\t", "  "]))
                out.append({"k": "text", "s": "".join(parts)})
            elif k == "table":
                out.append({"k": "table", "f": rng.choice(["t1.tbl", "t1.tbl", "t0.tbl"])})
            elif k == "incbin":
                self.n_file += 1
                f = f"bin{self.n_file}.dat"
                kk = rng.random()
                n = rng.choice([0, 1, 2, 0x7FFF, 0x8000, 0x8001, 0xFFFF, 0x10000]) if (kk < 0.25 and self.p.big_incbin) else rng.randint(0, 40) if kk < 0.8 or not self.p.big_incbin else rng.randint(0, 70000)
                self.files[f] = {"pat": [rng.randint(0, 250), n]}
                out.append({"k": "incbin", "f": f})
                gs.labels.append(f.replace(".", "_"))
            elif k == "const":
                eager = rng.random() < 0.5
                name = self.fresh_const(gs, eager)
                gs.consts.append(name)
                self._note_inline(gs, name)
                wide = None
                if rng.random() < self.p.wide_consts:
                    wv = rng.choice([0x1000000, 0x12345678, 0x80FF1234, 0xFFFFFFFF, 1 << 32, -1, -2, -0x100, -0x123456])
                    wide = ["lit", wv, "x"] if wv >= 0 else ["neg", ["lit", -wv, "x"]]
                if eager:
                    t, v = (wide, X.evaluate(wide, {})) if wide is not None else self.x_expr(gs)
                    out.append({"k": "const", "n": name, "e": t, "eager": True})
                    gs.xc[name] = v
                else:
                    out.append({"k": "const", "n": name, "e": wide if wide is not None else self.value_expr(gs, params=gs.kind == "macro"), "eager": False})
                    gs.eq.append(name)
            elif k == "org":
                if self.p.org_here and not self.in_ram and rng.random() < self.p.org_here:
                    # a move to where the program already is `here: *=here` -- after an @= this ends the
                    # relocation and goes on storing at the mapped offset of the address the code was running at
                    self.n_label += 1
                    name = f"lb_p{self.n_label}"
                    out.append({"k": "label", "n": name})
                    # (exactly there: label + n could leave the bank window)
                    out.append({"k": "org", "a": ["id", name] if rng.random() < 0.7 else ["bin", "+", ["id", name], ["lit", 0, "d"]]})
                else:
                    out.append({"k": "org", "a": self.position(gs, self.rom_address(), 0.85)})
                self.in_ram = False
            elif k == "reloc_rom":
                out.append({"k": "reloc", "a": self.position(gs, self.rom_address(), 0.85)})
            elif k == "reloc":
                ram = self.p.reloc_ram and (not self.p.reloc_rom or rng.random() < 0.5)
                out.append({"k": "reloc", "a": self.position(gs, self.ram_address() if ram else self.rom_address())})
                self.in_ram = ram
            elif k == "block":
                out.append({"k": "block", "b": self.fill(node["b"], node["gs"], depth + 1)})
            elif k == "scope":
                out.append({"k": "scope", "n": node["n"], "b": self.fill(node["b"], node["gs"], depth + 1)})
                # a named scope exports its symbols too (scopename.constant), usable from here on like its labels
                gs.exports += [f"{node['n']}.{c}" for c in node["gs"].consts if c not in node["gs"].labels]
                # ... and those that are known while the program is expanded (:=) can be used in conditions, bounds, := and
                # macro arguments after the scope
                for c, v in node["gs"].xc.items():
                    if c in node["gs"].consts and "." not in c:
                        gs.xc[f"{node['n']}.{c}"] = v
            elif k == "for":
                child = node["gs"]
                lo_t, lo = self.x_expr(gs, small=True)
                cnt = rng.choice([0, 1, 2, 2, 3, 4])
                hi = lo + cnt
                hi_t = ["lit", hi, "d"] if rng.random() < 0.6 else ["bin", "+", lo_t, ["lit", cnt, "d"]]
                if lo < 0 or hi > 40:
                    lo_t, hi_t, lo = ["lit", 0, "d"], ["lit", cnt, "d"], 0
                var = f"i_{depth}"
                child.loopvar = (var, lo)
                out.append({"k": "for", "v": var, "lo": lo_t, "hi": hi_t, "b": self.fill(node["b"], child, depth + 1)})
            elif k == "if":
                form = rng.random()
                if node.get("certain"):
                    c = ["lit", rng.choice([1, 2, 5, 0xFF]), rng.choice(["d", "x"])]
                elif form < 0.3 and self.p.shadowing and self.label_consts(gs) - self.blocked(gs):
                    # a name that means a label here (an outer := constant of the same name must not leak in): undefined
                    # at expansion time, hence false
                    c = ["id", rng.choice(sorted(self.label_consts(gs) - self.blocked(gs)))]
                elif form < 0.15:
                    c = ["id", "k_undefined"]
                elif form < 0.3:
                    c = ["lit", rng.choice([0, 1, 5]), "d"]
                elif form < 0.42:
                    # non-zero values whose low byte / word / 24 / 32 bits are all zero, and their negatives
                    c = ["lit", rng.choice([0x100, 0x8000, 0x10000, 0x7E0000, 0x1000000, 0xFFFF0000, 1 << 32, 1 << 40]), "x"]
                    if rng.random() < 0.3:
                        c = ["neg", c]
                else:
                    c, _ = self.x_expr(gs)
                    if rng.random() < 0.3:
                        c = ["neg", c]
                t = self.fill(node["t"], node["gs_t"], depth + 1)
                e = self.fill(node["e"], node["gs_e"], depth + 1) if node["e"] is not None else None
                out.append({"k": "if", "c": c, "t": t, "e": e})
            elif k == "call":
                out.append(self.call(node["m"], gs))
            else:
                raise ValueError(k)
        return out

    def call(self, m, gs: GS):
        rng = self.rng
        args = []
        for q in m["ps"]:
            if q in m["code_ps"]:
                code = []
                for _ in range(rng.randint(0, 2)):
                    code.append({"k": "data", "d": rng.choice(["db", "dw"]), "es": [self.lit(0, 0xFFFF)]} if rng.random() < 0.6 else self.instruction(GS(None, "root")))
                args.append({"code": code})
            elif m.get("rec") and q == m["ps"][0]:
                args.append(["lit", rng.randint(0, 3), "d"])
            elif q == m.get("wide") and rng.random() < (0.6 if self.p.unsized_symbols else 0.9):
                lo, hi = rng.choice([(0, 0xFF), (0x100, 0xFFFF), (0x10000, 0xFFFFFF)])
                args.append(self.lit(lo, hi))
            else:
                k = rng.random()
                if self.p.param_named_consts and k < 0.35:
                    args.append(["id", rng.choice(self.param_consts)])
                elif k > 0.88:
                    # values that code likes to use as markers: -1, 0, 1, -2, all-ones of a field, one past a field
                    v = rng.choice([-1, -1, 0, 1, -2, 0xFF, 0xFFFF, 0xFFFFFF, 0x1000000, 0xFFFFFFFF, -0x8000])
                    form = rng.random()
                    if v < 0:
                        args.append(["neg", ["lit", -v, "d"]] if form < 0.5 else ["bin", "-", ["lit", 3, "d"], ["lit", 3 - v, "d"]])
                    else:
                        args.append(["lit", v, rng.choice(["d", "x"])])
                else:
                    args.append(self.value_expr(gs))
        if rng.random() < 0.1:
            args.append(self.lit(0, 9))  # surplus argument: accepted silently, counted
        return {"k": "call", "n": m["n"], "args": args}

    def fill_macro(self, m):
        gs = m["gs"]
        gs.code_params = m["code_ps"]
        body = self.fill(m["b"], gs, 1)
        for q in m["code_ps"]:
            body.insert(self.rng.randint(0, len(body)), {"k": "splice", "p": q})
        if m["rec"]:
            p0 = m["ps"][0]
            rec_args = [["bin", "-", ["id", p0], ["lit", 1, "d"]]] + [(["id", q] if q not in m["code_ps"] else {"code": []}) for q in m["ps"][1:]]
            body.append({"k": "if", "c": ["id", p0], "t": [{"k": "data", "d": "db", "es": [["id", p0]]}, {"k": "call", "n": m["n"], "args": rec_args}],
                         "e": [{"k": "data", "d": "db", "es": [["lit", 0xEE, "x"]]}] if self.rng.random() < 0.5 else None})
        return {"k": "macro", "n": m["n"], "ps": m["ps"], "b": body}

    # ---- whole program ---------------------------------------------------------------------------------
    def program(self):
        rng = self.rng
        self.root = GS(None, "root")
        self.root.xc.update(self.p.defines)
        head = []
        macro_plans = self.plan_macros()
        self.param_consts = []
        if self.p.param_named_consts:
            # call-site constants whose names coincide with parameter names (arguments must not be captured)
            for m in macro_plans:
                for q in m["ps"]:
                    if q in m["code_ps"]:
                        continue
                    v = rng.choice([5, 0x42, 0x1234])
                    head.append({"k": "const", "n": q, "e": ["lit", v, "x"], "eager": True})
                    self.param_consts.append(q)
            if not self.param_consts:
                self.param_consts = ["k_pc"]
                head.append({"k": "const", "n": "k_pc", "e": ["lit", 9, "d"], "eager": True})
        n = rng.randint(3, self.p.max_stmts)
        self.budget = n
        skel = self.skeleton(self.root, n, 0)
        if self.macros:
            ncalls = sum(1 for nd in skel if nd["k"] == "call")
            while ncalls < self.p.min_calls:
                skel.insert(rng.randint(0, len(skel)), {"k": "call", "m": rng.choice(self.macros)})
                ncalls += 1
        ir = list(head)
        if self.p.text:
            self.files["t0.tbl"] = "01=a\n02=b\n03=ab\n10=the \nF0F1=~\n0405=abc\n20= \n30=\u00e9\n3132=\u00df\u00e9\n33=\u6f22\n"
            self.files["t1.tbl"] = "81=a\n82=b\n90=the \nA0A1A2=~\n84=abc\n8520=  \nB0=\u00e9\n"
            ir.append({"k": "table", "f": "t0.tbl"})
        if self.usermap:
            ir = [{"k": "map", "spec": sp} for sp in self.usermap] + ir
        if self.p.lead_reloc and self.rng.random() < self.p.lead_reloc:
            # no *= at the start: the program only says where its code runs
            ir.append({"k": "reloc", "a": self.rom_address()})
        else:
            ir.append({"k": "org", "a": self.rom_address()})
        # macro definitions come first (they must precede their applications); bodies are filled with the
        # root's planned names visible
        for m in macro_plans:
            ir.append(self.fill_macro(m))
        ir += self.fill(skel, self.root, 0)
        if self.p.includes:
            # move runs of complete top-level statements into .include files (nested once)
            for level in range(2):
                if len(ir) > 3 and rng.random() < 0.7:
                    i = rng.randint(1, len(ir) - 2)
                    j = min(len(ir), i + rng.randint(1, 4))
                    name = f"part{level + 1}.s"
                    run = ir[i:j]
                    if level == 1 and run and run[0]["k"] == "include":
                        continue
                    ir[i:j] = [{"k": "include", "f": name, "b": run}]
        case = {"rom": self.rom, "ir": ir, "files": self.files}
        if self.usermap:
            case["usermap"] = self.usermap
        return case


def random_usermap(rng):
    """1-3 ROM ranges (some with an equal-length mirror) + optionally a RAM range, disjoint banks, by construction"""
    specs = []
    cursor = rng.randint(0, 30)
    ident = 1
    for _ in range(rng.randint(1, 3)):
        length = rng.choice([4, 8, 16, 32, 32, 70, 100])
        win = rng.choice(["hi32", "hi32", "full64", "full64", "half64"])
        mirror = rng.random() < 0.5
        need = length * (2 if mirror else 1) + 3
        if cursor + need > 250:
            break
        spec = {"id": ident, "first": cursor, "last": cursor + length - 1, "win": win, "ram": False, "mirror": None}
        cursor += length + rng.randint(0, 3)
        if mirror:
            spec["mirror"] = [cursor, cursor + length - 1]
            cursor += length
        specs.append(spec)
        ident += 1
        cursor += rng.randint(0, 20)
    if not specs:
        specs = [{"id": 1, "first": 0, "last": 15, "win": "hi32", "ram": False, "mirror": None}]
    if rng.random() < 0.6 and cursor + 2 < 256:
        mirror = [cursor + 3, cursor + 4] if rng.random() < 0.3 and cursor + 5 < 256 else None  # RAM seen at two bank ranges
        specs.append({"id": ident, "first": cursor, "last": cursor + 1, "win": "full64", "ram": True, "mirror": mirror})
    return specs


def generate(rng, profile: Profile, rom: str | None = None, usermap=None):
    rom = rom or rng.choice(["low", "high"])
    if usermap and not any(sp.get("ram") for sp in usermap) and profile.reloc_ram:
        import copy
        profile = copy.copy(profile)
        profile.reloc_ram = False
    case = ProgGen(rng, profile, rom, usermap).program()
    case["join_seed"] = rng.randint(0, 1 << 30)  # seed of the "several statements on one line" rendering (used by some checks)
    return case


def strip_private(ir):
    return ir
