"""Drives the REAL assembler from /repo's working tree through its public entry points.

Everything here observes a816 from the outside: the in-memory API with a recording Writer, the
file APIs, the in-process CLI, the real `python -m a816.cli` subprocess and a fresh-interpreter
executor.  Logging and prints of the assembler are always silenced (the parser prints and logs a
traceback on every syntax error).
"""
from __future__ import annotations

import atexit
import contextlib
import io
import json
import logging
import os
import shutil
import subprocess
import sys
import tempfile
import traceback
from typing import Any

from . import REPO_ROOT, VERIF_ROOT, add_repo_to_path

add_repo_to_path()

PYTHON = "/venv/bin/python" if os.path.exists("/venv/bin/python") else sys.executable

_DEVNULL = open(os.devnull, "w")
_WORKDIR: str | None = None
_ORIG_CWD = os.getcwd()


def init_worker() -> str:
    """Silence a816 and move into a process-private scratch directory (a816 resolves .include /
    .incbin / .table / .include_ips paths against the process cwd)."""
    global _WORKDIR
    logging.disable(logging.CRITICAL)
    import warnings

    warnings.simplefilter("ignore")
    if _WORKDIR is None or not os.path.isdir(_WORKDIR) or _WORKDIR_PID != os.getpid():
        root = os.environ.get("VERIF_TMPROOT")
        _WORKDIR = tempfile.mkdtemp(prefix="a816verif_", dir=root if root and os.path.isdir(root) else None)
        _set_pid()
        atexit.register(_cleanup, _WORKDIR, os.getpid())
    os.chdir(_WORKDIR)
    return _WORKDIR


_WORKDIR_PID = -1


def _set_pid() -> None:
    global _WORKDIR_PID
    _WORKDIR_PID = os.getpid()


def _cleanup(path: str, pid: int) -> None:
    if os.getpid() == pid:
        try:
            os.chdir(_ORIG_CWD if os.path.isdir(_ORIG_CWD) else "/")
        except OSError:
            pass
        shutil.rmtree(path, ignore_errors=True)


def workdir() -> str:
    if _WORKDIR is None or _WORKDIR_PID != os.getpid():
        return init_worker()
    return _WORKDIR


@contextlib.contextmanager
def quiet():
    with contextlib.redirect_stdout(_DEVNULL), contextlib.redirect_stderr(_DEVNULL):
        yield


class RecordingWriter:
    """Implements the Writer protocol; records every call."""

    def __init__(self) -> None:
        self.blocks: list[tuple[int, bytes]] = []
        self.calls: list[str] = []

    def begin(self) -> None:
        self.calls.append("begin")

    def write_block_header(self, block: bytes, block_address: int) -> None:
        return None

    def write_block(self, block: bytes, block_address: int) -> None:
        self.blocks.append((block_address, bytes(block)))

    def end(self) -> None:
        self.calls.append("end")


def rom_type(name: str):
    from a816.cpu.cpu_65c816 import RomType

    return {"low": RomType.low_rom, "low2": RomType.low_rom_2, "high": RomType.high_rom}[name]


def innermost_frame(exc: BaseException) -> str:
    """innermost frame that belongs to a816/ or script/ (root-cause bucketing key)."""
    tb = traceback.extract_tb(exc.__traceback__)
    best = None
    for fr in tb:
        fn = fr.filename.replace("\\", "/")
        if "/a816/" in fn or "/script/" in fn:
            best = f"{os.path.basename(fn)}:{fr.name}"
    return best or (f"{os.path.basename(tb[-1].filename)}:{tb[-1].name}" if tb else "?")


def write_files(files: dict[str, Any] | None) -> list[str]:
    """files: name -> bytes | str | {"hex": ...}.  Written into the worker's scratch cwd."""
    written = []
    if not files:
        return written
    wd = workdir()
    for name, content in files.items():
        path = os.path.join(wd, name)
        os.makedirs(os.path.dirname(path), exist_ok=True)
        if isinstance(content, dict):
            if "hex" in content:
                content = bytes.fromhex(content["hex"])
            elif "rep" in content:  # {"rep": [byte, count]} compact big files
                content = bytes([content["rep"][0]]) * content["rep"][1]
            elif "pat" in content:  # {"pat": [seed, count]} deterministic non-periodic-looking bytes
                content = _pattern(*content["pat"])
        if isinstance(content, str):
            with open(path, "w", encoding="utf-8", newline="") as f:
                f.write(content)
        else:
            with open(path, "wb") as f:
                f.write(content)
        written.append(path)
    return written


_PAT = bytes(((i * 197 + 31 + (i >> 3) * 13) & 0xFF) for i in range(251))  # prime period


def _pattern(seedv: int, count: int) -> bytes:
    rot = seedv % 251
    base = _PAT[rot:] + _PAT[:rot]
    return (base * (count // 251 + 1))[:count]


def file_bytes(content: Any) -> bytes:
    if isinstance(content, dict):
        if "hex" in content:
            return bytes.fromhex(content["hex"])
        if "rep" in content:
            return bytes([content["rep"][0]]) * content["rep"][1]
        if "pat" in content:
            return _pattern(*content["pat"])
    if isinstance(content, str):
        return content.encode("utf-8")
    return bytes(content)


def remove_files(paths: list[str]) -> None:
    for p in paths:
        try:
            os.remove(p)
        except OSError:
            pass


class Result(dict):
    """status: ok | error (returned string) | exc (raised)"""

    @property
    def accepted(self) -> bool:
        return self["status"] == "ok"

    @property
    def failure_text(self) -> str:
        if self["status"] == "error":
            return self["error"] or ""
        if self["status"] == "exc":
            return self["msg"]
        return ""


def assemble_mem(
    src: str,
    rom: str = "low",
    files: dict[str, Any] | None = None,
    defines: dict[str, int] | None = None,
    filename: str = "main.s",
    keep_program: bool = False,
    wrap=None,
) -> Result:
    """In-memory API: Program().assemble_string_with_emitter(src, filename, RecordingWriter())."""
    from a816.program import Program

    workdir()
    written = write_files(files)
    w = RecordingWriter()
    res = Result(status="ok", error=None, exc=None, msg="", frame="", blocks=w.blocks, labels=[], rom=rom)
    program = None
    try:
        with quiet():
            program = Program()
            program.resolver.rom_type = rom_type(rom)
            if defines:
                for k, v in defines.items():
                    program.resolver.current_scope.add_symbol(k, v)
            if wrap is not None:
                wrap(program)
            err = program.assemble_string_with_emitter(src, filename, w)
        if err is not None:
            res["status"] = "error"
            res["error"] = str(err)
    except RecursionError as e:
        res.update(status="exc", exc="RecursionError", msg="recursion", frame="recursion")
    except Exception as e:  # every failure that reaches the caller counts as "rejected"
        res.update(status="exc", exc=type(e).__name__, msg=_safe_str(e), frame=innermost_frame(e))
    finally:
        remove_files(written)
    if program is not None:
        try:
            res["labels"] = list(program.resolver.get_all_labels())
        except Exception:
            res["labels"] = []
        if keep_program:
            res["program"] = program
    return res


def _safe_str(e: BaseException) -> str:
    try:
        return str(e)
    except Exception:
        return repr(type(e))


def eval_symbol(program, name: str):
    """value of a root-scope visible symbol after assembly (None if unknown)."""
    try:
        v = program.resolver.scopes[0].value_for(name)
        return v if isinstance(v, int) else None
    except Exception:
        return None


def flatten(blocks: list[tuple[int, bytes]]) -> list[tuple[int, int]]:
    out = []
    for addr, data in blocks:
        out.extend((addr + i, b) for i, b in enumerate(data))
    return out


def image(blocks: list[tuple[int, bytes]]) -> dict[int, int]:
    img: dict[int, int] = {}
    for addr, data in blocks:
        for i, b in enumerate(data):
            img[addr + i] = b
    return img


def blocks_json(blocks: list[tuple[int, bytes]], limit: int = 64) -> list:
    return [[a, d[:limit].hex() + ("…" if len(d) > limit else "")] for a, d in blocks]


# ---------------------------------------------------------------------------------------------
# file APIs and CLI



def _stage_source(src: str, files: dict[str, Any] | None, env: dict | None):
    """writes the main source (and the files) the way `env` says: line ends of the text files (lf | crlf | cr -- Python's
    text mode reads them all as LF), the main source in a sub-directory with decoy files of the same names next to it
    (paths are relative to the working directory, not to the source), an output file that already exists and is longer
    than what will be written.  -> (source path as given to the front end, output path, list of paths to remove)"""
    env = env or {}
    wd = workdir()
    nl = {"lf": "\n", "crlf": "\r\n", "cr": "\r"}[env.get("newline", "lf")]
    staged = {}
    for name, content in (files or {}).items():
        if isinstance(content, str) and name.endswith(".s") and nl != "\n":
            content = content.replace("\n", nl)
        staged[name] = content
    written = write_files(staged)
    rel = "src/main.s" if env.get("subdir") else "main.s"
    srcp = os.path.join(wd, rel)
    os.makedirs(os.path.dirname(srcp), exist_ok=True)
    with open(srcp, "w", encoding="utf-8", newline="") as f:
        f.write(src.replace("\n", nl) if nl != "\n" else src)
    written.append(srcp)
    if env.get("subdir"):
        for name, content in (files or {}).items():
            decoy = os.path.join(wd, "src", name)
            os.makedirs(os.path.dirname(decoy), exist_ok=True)
            with open(decoy, "wb") as f:
                f.write(b".db 0xde, 0xad\n" if name.endswith(".s") else b"\xde\xad\xbe\xef\x99")
            written.append(decoy)
    outp = os.path.join(wd, "out.bin")
    if env.get("preexisting"):
        with open(outp, "wb") as f:
            f.write(_pattern(77, int(env["preexisting"])))
    return rel, outp, written


def _unstage(written: list[str]) -> None:
    remove_files(written)
    sub = os.path.join(workdir(), "src")
    if os.path.isdir(sub):
        shutil.rmtree(sub, ignore_errors=True)


def assemble_file_api(
    src: str,
    fmt: str = "ips",
    mapping: str | None = "low",
    copier: bool = False,
    files: dict[str, Any] | None = None,
    defines: dict[str, int] | None = None,
    symfile: bool = False,
    env: dict | None = None,
) -> dict:
    """Program.assemble / Program.assemble_as_patch on real files in the scratch dir."""
    from a816.program import Program

    wd = workdir()
    rel, outp, written = _stage_source(src, files, env)
    symp = os.path.join(wd, "out.sym")
    out = {"status": "ok", "rc": None, "exc": None, "msg": "", "frame": "", "output": None, "sym": None}
    try:
        with quiet():
            program = Program(dump_symbols=True) if (env or {}).get("dump") else Program()
            if defines:
                for k, v in defines.items():
                    program.resolver.current_scope.add_symbol(k, v)
            if fmt == "ips":
                rc = program.assemble_as_patch(rel, outp, mapping, copier)
            else:
                if mapping is not None:
                    program.resolver.rom_type = rom_type(mapping)
                rc = program.assemble(rel, outp)
            out["rc"] = rc
            if symfile:
                program.exports_symbol_file(symp)
                with open(symp, encoding="utf-8") as f:
                    out["sym"] = f.read()
    except RecursionError:
        out.update(status="exc", exc="RecursionError", msg="recursion", frame="recursion")
    except Exception as e:
        out.update(status="exc", exc=type(e).__name__, msg=_safe_str(e), frame=innermost_frame(e))
    finally:
        if os.path.exists(outp):
            with open(outp, "rb") as f:
                out["output"] = f.read()
        _unstage(written + [outp, symp])
    return out


class _LogCapture(logging.Handler):
    def __init__(self) -> None:
        super().__init__(level=logging.DEBUG)
        self.records: list[str] = []

    def emit(self, record: logging.LogRecord) -> None:
        try:
            self.records.append(record.getMessage())
        except Exception:
            self.records.append(str(record.msg))


def cli_inproc(argv: list[str], src: str, files: dict[str, Any] | None = None, capture_log: bool = True, env: dict | None = None) -> dict:
    """cli_main() in this process: sys.argv patched, SystemExit caught, log records captured."""
    import a816.cli as cli

    wd = workdir()
    rel, outp, written = _stage_source(src, files, env)
    out = {"status": "ok", "rc": None, "exc": None, "msg": "", "frame": "", "output": None, "log": ""}
    old_argv = sys.argv
    handler = _LogCapture()
    root = logging.getLogger()
    old_disable = logging.root.manager.disable
    old_handlers = root.handlers[:]
    old_level = root.level
    sio = io.StringIO()
    try:
        if capture_log:
            logging.disable(logging.NOTSET)
            root.handlers = [handler]  # basicConfig() becomes a no-op, nothing goes to the console
            root.setLevel(logging.INFO)
        sys.argv = ["x816", rel, "-o", outp] + argv + (["--dump-symbols"] if (env or {}).get("dump") else []) + (["--verbose"] if (env or {}).get("verbose") else [])
        with contextlib.redirect_stdout(sio), contextlib.redirect_stderr(sio):
            try:
                cli.cli_main()
                out["rc"] = 0
            except SystemExit as e:
                code = e.code
                out["rc"] = 0 if code is None else (code if isinstance(code, int) else 1)
    except RecursionError:
        out.update(status="exc", exc="RecursionError", msg="recursion", frame="recursion")
    except Exception as e:
        out.update(status="exc", exc=type(e).__name__, msg=_safe_str(e), frame=innermost_frame(e))
    finally:
        sys.argv = old_argv
        root.handlers = old_handlers
        root.setLevel(old_level)
        logging.disable(old_disable)
        out["log"] = "\n".join(handler.records) + "\n" + sio.getvalue()
        if os.path.exists(outp):
            with open(outp, "rb") as f:
                out["output"] = f.read()
        _unstage(written + [outp])
    return out


def cli_subprocess(argv: list[str], src: str, files: dict[str, Any] | None = None, timeout: float = 120) -> dict:
    """the real command line: `python -m a816.cli main.s -o out.bin ...` in a private directory."""
    wd = tempfile.mkdtemp(prefix="a816cli_", dir=workdir())
    out = {"status": "ok", "rc": None, "output": None, "log": ""}
    try:
        for name, content in (files or {}).items():
            with open(os.path.join(wd, name), "wb") as f:
                f.write(file_bytes(content))
        with open(os.path.join(wd, "main.s"), "w", encoding="utf-8", newline="") as f:
            f.write(src)
        env = dict(os.environ, PYTHONPATH=REPO_ROOT, PYTHONDONTWRITEBYTECODE="1", PYTHONHASHSEED="0")
        try:
            p = subprocess.run(
                [PYTHON, "-m", "a816.cli", "main.s", "-o", "out.bin"] + argv,
                cwd=wd, env=env, capture_output=True, timeout=timeout,
            )
            out["rc"] = p.returncode
            out["log"] = (p.stdout + p.stderr).decode("utf-8", "replace")
        except subprocess.TimeoutExpired:
            out["status"] = "timeout"
        op = os.path.join(wd, "out.bin")
        if os.path.exists(op):
            with open(op, "rb") as f:
                out["output"] = f.read()
    finally:
        shutil.rmtree(wd, ignore_errors=True)
    return out


# ---------------------------------------------------------------------------------------------
# fresh interpreter executor (C19 histories / baselines)

_FRESH_SNIPPET = r"""
import sys, json
sys.path.insert(0, %(verif)r)
import vlib
from vlib import driver
driver.init_worker()
jobs = json.load(sys.stdin)
out = []
for job in jobs:
    out.append(driver.run_job(job))
sys.stdout.write("\n@@RESULT@@" + json.dumps(out))
"""


def normalise_text(s: str) -> str:
    import re

    s = re.sub(r"0x[0-9a-fA-F]{8,}", "0xADDR", s or "")
    s = re.sub(r"/tmp/[A-Za-z0-9_./-]*a816verif_[A-Za-z0-9_]+/", "", s)
    return s


def run_job(job: dict) -> dict:
    """one assembly, JSON in / JSON out.  job: {src, rom, files, entry: mem|file_ips|file_sfc|cli, ...}"""
    entry = job.get("entry", "mem")
    files = job.get("files")
    if entry == "mem":
        r = assemble_mem(job["src"], rom=job.get("rom", "low"), files=files, keep_program=True,
                         filename=job.get("filename", "main.s"))
        prog = r.pop("program", None)
        probes = {}
        for name in job.get("probes", []):
            probes[name] = eval_symbol(prog, name) if prog is not None else None
        return {
            "status": r["status"], "error": normalise_text(r["error"] or ""), "exc": r["exc"],
            "msg": normalise_text(r["msg"]), "blocks": [[a, d.hex()] for a, d in r["blocks"]],
            "labels": [[n, v] for n, v in r["labels"]], "probes": probes,
        }
    if entry in ("file_ips", "file_sfc"):
        r = assemble_file_api(job["src"], fmt=entry[5:], mapping=job.get("rom", "low"), files=files,
                              symfile=True)
        return {"status": r["status"], "rc": r["rc"], "exc": r["exc"], "msg": normalise_text(r["msg"]),
                "output": r["output"].hex() if r["output"] is not None else None, "sym": r["sym"]}
    if entry == "cli":
        r = cli_inproc(job.get("argv", []), job["src"], files=files)
        return {"status": r["status"], "rc": r["rc"], "exc": r["exc"], "msg": normalise_text(r["msg"]),
                "output": r["output"].hex() if r["output"] is not None else None}
    raise ValueError(entry)


def fresh_process(jobs: list[dict], timeout: float = 300, hashseed: str = "0") -> list[dict] | None:
    env = dict(os.environ, PYTHONDONTWRITEBYTECODE="1", PYTHONHASHSEED=hashseed)
    p = subprocess.run(
        [PYTHON, "-c", _FRESH_SNIPPET % {"verif": VERIF_ROOT}],
        input=json.dumps(jobs).encode(), capture_output=True, timeout=timeout, env=env, cwd="/",
    )
    txt = p.stdout.decode("utf-8", "replace")
    i = txt.rfind("@@RESULT@@")
    if i < 0:
        raise RuntimeError("fresh process failed: rc=%s stderr=%s" % (p.returncode, p.stderr.decode()[-2000:]))
    return json.loads(txt[i + len("@@RESULT@@"):])
