"""Verification library for manz/a816 (property-based testing / fuzzing harness)."""
import os
import sys

VERIF_ROOT = os.path.dirname(os.path.dirname(os.path.abspath(__file__)))
# The repository under test.  /repo's *current working tree* is imported directly, nothing is
# copied or cached.  A816_REPO exists only so that sensitivity experiments can point the very same
# checks at a scratch worktree; registered commands never set it.
REPO_ROOT = os.environ.get("A816_REPO", "/repo")


def add_repo_to_path() -> None:
    if REPO_ROOT not in sys.path:
        sys.path.insert(0, REPO_ROOT)
    if VERIF_ROOT not in sys.path:
        sys.path.insert(0, VERIF_ROOT)
