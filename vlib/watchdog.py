"""Deterministic step budget: counts 'line' trace events in frames whose code lives in a816/ or script/
and raises BudgetExceeded inside the running code when the budget is exhausted.  Wall-clock time is never
used as a correctness signal.

Work done inside one C call (a regular expression that backtracks catastrophically, a huge integer operation) produces
no line events.  For that there is a second, coarse bound on the CPU time of this process (ITIMER_VIRTUAL, which the
regex engine honours: it polls for signals): it does not grow when the machine is busy, and it is set several orders of
magnitude above what the unchanged assembler needs for the same input."""
from __future__ import annotations

import sys

from . import REPO_ROOT


class BudgetExceeded(BaseException):
    """derives from BaseException so that no `except Exception` in the code under test can swallow it"""


_PREFIXES = (REPO_ROOT.rstrip("/") + "/a816/", REPO_ROOT.rstrip("/") + "/script/")


class Watchdog:
    """Python >= 3.12: sys.monitoring LINE events (PEP 669).  A sys.settrace callback is silently removed by the
    interpreter as soon as it raises -- which it does with RecursionError when the traced code sits at the recursion
    limit -- and code that then swallows the RecursionError and carries on would run unobserved.  Monitoring callbacks
    stay registered whatever they raise."""

    def __init__(self, budget: int, cpu_seconds: float | None = None):
        self.budget = budget
        self.cpu_seconds = cpu_seconds
        self.count = 0
        self._interesting: dict = {}

    # ---- sys.monitoring -------------------------------------------------------------------------------
    def _on_line(self, code, line):
        hit = self._interesting.get(code)
        if hit is None:
            hit = code.co_filename.startswith(_PREFIXES)
            self._interesting[code] = hit
        if not hit:
            return sys.monitoring.DISABLE
        self.count += 1
        if self.count > self.budget:
            raise BudgetExceeded(f"more than {self.budget} line events")
        return None

    def _run_monitoring(self, fn, args, kwargs):
        mon = sys.monitoring
        tool = mon.PROFILER_ID
        if mon.get_tool(tool) is not None:
            mon.set_events(tool, 0)
            mon.free_tool_id(tool)
        mon.use_tool_id(tool, "a816verif-watchdog")
        mon.register_callback(tool, mon.events.LINE, self._on_line)
        mon.set_events(tool, mon.events.LINE)
        mon.restart_events()
        try:
            return "ok", fn(*args, **kwargs)
        except BudgetExceeded as e:
            return "budget", str(e)
        except RecursionError:
            return "exception", "RecursionError"
        except Exception as e:
            return "exception", f"{type(e).__name__}: {str(e)[:100]}"
        finally:
            mon.set_events(tool, 0)
            mon.register_callback(tool, mon.events.LINE, None)
            mon.free_tool_id(tool)

    # ---- sys.settrace fallback (Python < 3.12) ----------------------------------------------------------
    def _local(self, frame, event, arg):
        if event == "line":
            self.count += 1
            if self.count > self.budget:
                sys.settrace(None)
                raise BudgetExceeded(f"more than {self.budget} line events")
        return self._local

    def _global(self, frame, event, arg):
        code = frame.f_code
        hit = self._interesting.get(code)
        if hit is None:
            hit = code.co_filename.startswith(_PREFIXES)
            self._interesting[code] = hit
        return self._local if hit else None

    def run(self, fn, *args, **kwargs):
        """-> (status, value): status in ok | exception | budget"""
        if self.cpu_seconds:
            import signal

            def on_cpu(signum, frame):
                raise BudgetExceeded(f"more than {self.cpu_seconds} s of CPU time")

            old_h = signal.signal(signal.SIGVTALRM, on_cpu)
            signal.setitimer(signal.ITIMER_VIRTUAL, self.cpu_seconds)
            try:
                return self._run(fn, args, kwargs)
            finally:
                signal.setitimer(signal.ITIMER_VIRTUAL, 0)
                signal.signal(signal.SIGVTALRM, old_h)
        return self._run(fn, args, kwargs)

    def _run(self, fn, args, kwargs):
        if hasattr(sys, "monitoring"):
            return self._run_monitoring(fn, args, kwargs)
        old = sys.gettrace()
        sys.settrace(self._global)
        try:
            return "ok", fn(*args, **kwargs)
        except BudgetExceeded as e:
            return "budget", str(e)
        except RecursionError as e:
            return "exception", "RecursionError"
        except Exception as e:
            return "exception", f"{type(e).__name__}: {str(e)[:100]}"
        finally:
            sys.settrace(old)


def selftest() -> None:
    # the watchdog must stop a loop in traced code and must not count untraced code
    import types

    src = "def spin():\n    i = 0\n    while True:\n        i += 1\n"
    code = compile(src, _PREFIXES[0] + "_watchdog_selftest.py", "exec")
    ns: dict = {}
    exec(code, ns)
    w = Watchdog(10_000)
    st, _ = w.run(ns["spin"])
    assert st == "budget" and w.count > 10_000, (st, w.count)
    w = Watchdog(100)
    st, v = w.run(lambda: sum(range(100000)))
    assert st == "ok" and w.count == 0
    # code that swallows RecursionError at the recursion limit and then spins must still be stopped
    src2 = ("def deep(n):\n    try:\n        return deep(n + 1)\n    except RecursionError:\n        i = 0\n        while True:\n            i += 1\n")
    ns2: dict = {}
    exec(compile(src2, _PREFIXES[0] + "_watchdog_selftest2.py", "exec"), ns2)
    w = Watchdog(200_000)
    st, _ = w.run(ns2["deep"], 0)
    assert st == "budget", st
    # a C-level loop without line events is stopped by the CPU-time bound
    import re

    w = Watchdog(10_000, cpu_seconds=0.5)
    st, v = w.run(re.match, r"^(?:a{1,2})+b", "a" * 64)
    assert st == "budget" and "CPU" in v, (st, v)
