"""Deterministic step budget: counts 'line' trace events in frames whose code lives in a816/ or script/
and raises BudgetExceeded inside the running code when the budget is exhausted.  Wall-clock time is never
used as a correctness signal."""
from __future__ import annotations

import sys

from . import REPO_ROOT


class BudgetExceeded(BaseException):
    """derives from BaseException so that no `except Exception` in the code under test can swallow it"""


_PREFIXES = (REPO_ROOT.rstrip("/") + "/a816/", REPO_ROOT.rstrip("/") + "/script/")


class Watchdog:
    def __init__(self, budget: int):
        self.budget = budget
        self.count = 0
        self._interesting: dict = {}

    def _local(self, frame, event, arg):
        if event == "line":
            self.count += 1
            if self.count > self.budget:
                sys.settrace(None)
                raise BudgetExceeded(f"more than {self.budget} line events")
        return self._local

    def _global(self, frame, event, arg):
        code = frame.f_code
        hit = self._interesting.get(code)
        if hit is None:
            hit = code.co_filename.startswith(_PREFIXES)
            self._interesting[code] = hit
        return self._local if hit else None

    def run(self, fn, *args, **kwargs):
        """-> (status, value): status in ok | exception | budget"""
        old = sys.gettrace()
        sys.settrace(self._global)
        try:
            return "ok", fn(*args, **kwargs)
        except BudgetExceeded as e:
            return "budget", str(e)
        except RecursionError as e:
            return "exception", "RecursionError"
        except Exception as e:
            return "exception", f"{type(e).__name__}: {str(e)[:100]}"
        finally:
            sys.settrace(old)


def selftest() -> None:
    # the watchdog must stop a loop in traced code and must not count untraced code
    import types

    src = "def spin():\n    i = 0\n    while True:\n        i += 1\n"
    code = compile(src, _PREFIXES[0] + "_watchdog_selftest.py", "exec")
    ns: dict = {}
    exec(code, ns)
    w = Watchdog(10_000)
    st, _ = w.run(ns["spin"])
    assert st == "budget" and w.count > 10_000, (st, w.count)
    w = Watchdog(100)
    st, v = w.run(lambda: sum(range(100000)))
    assert st == "ok" and w.count == 0
