"""Hypothesis strategies shared by the checks: names, literals, expression trees (built by
construction and repaired, never filtered)."""
from __future__ import annotations

from hypothesis import strategies as st

from .model import expr as X

# names never collide with a mnemonic (any 3-letter mnemonic followed by blank/'.' lexes as an
# opcode, in any letter case) or a keyword: every pool has a prefix + '_' + suffix.
LABELS = [f"lb_{c}" for c in "abcdefghijkl"]
CONSTS = [f"k_{c}" for c in "abcdefgh"]
PARAMS = [f"p_{c}" for c in "abcd"]
MACROS = [f"m_{c}" for c in "abcd"]
SCOPES = [f"sc_{c}" for c in "abcd"]

BOUNDARY = [0, 1, 2, 3, 5, 0x7F, 0x80, 0xFF, 0x100, 0x101, 0x1234, 0x7FFF, 0x8000, 0xFFFF, 0x10000, 0x10001, 0x12345,
            0xFFFFFF, 0x1000000, 0x1000001, 0xFFFFFFFF, 0x100000000, 0x100000001]


def literals(max_value: int = 1 << 33):
    vals = st.one_of(st.sampled_from([v for v in BOUNDARY if v <= max_value]), st.integers(0, 300), st.integers(0, max_value))
    return st.tuples(vals, st.sampled_from(["d", "x", "x", "X", "b"])).map(lambda t: ["lit", t[0], t[1]])


def small_literals():
    return st.tuples(st.integers(0, 12), st.sampled_from(["d", "x", "b"])).map(lambda t: ["lit", t[0], t[1]])


def expr_trees(names: list[str] | None = None, max_leaves: int = 12, ops: list[str] | None = None, unary: bool = True,
               inv: bool = True, parens: bool = True, lit_max: int = 1 << 33):
    """raw trees (may be undefined: negative shift, ~ of a negative ...) -> pass through repair()"""
    ops = ops or X.BINOPS
    leaves = [literals(lit_max), literals(lit_max)]
    if names:
        leaves.append(st.sampled_from(names).map(lambda n: ["id", n]))
    leaf = st.one_of(*leaves)

    def extend(children):
        alts = [st.tuples(st.sampled_from(ops), children, children).map(lambda t: ["bin", t[0], t[1], t[2]]),
                st.tuples(st.sampled_from(ops), children, children).map(lambda t: ["bin", t[0], t[1], t[2]]),
                st.tuples(st.sampled_from(["<<", ">>"]), children, small_literals()).map(lambda t: ["bin", t[0], t[1], t[2]])]
        if unary:
            alts.append(children.map(lambda c: ["neg", c]))
            if inv:
                alts.append(children.map(lambda c: ["inv", c]))
        if parens:
            alts.append(children.map(lambda c: ["par", c]))
        return st.one_of(*alts)

    return st.recursive(leaf, extend, max_leaves=max_leaves)


def repair(t, env: dict[str, int] | None = None):
    """returns (tree', value): the same tree with undefined sub-terms replaced by literals so that
    the whole tree has a conventional value (shift counts 0..40, ~ operand in 0..2^32-1, bounded
    magnitude).  Construction, not rejection."""
    k = t[0]
    if k == "lit":
        return t, t[1]
    if k == "id":
        if env is None or t[1] not in env:
            return ["lit", 7, "d"], 7
        return t, env[t[1]]
    if k == "par":
        c, v = repair(t[1], env)
        return ["par", c], v
    if k == "neg":
        c, v = repair(t[1], env)
        return ["neg", c], -v
    if k == "inv":
        c, v = repair(t[1], env)
        if v < 0 or v >= 1 << 32:
            if c[0] == "neg":
                c, v = ["neg", ["lit", 0, "d"]], 0  # ~-x  ->  ~-0 : the operators survive, the operand becomes defined
            else:
                v = abs(v) % (1 << 32)
                c = ["lit", v, "x"]
        n = ["inv", c]
        return n, X.evaluate(n, env)
    op = t[1]
    l, lv = repair(t[2], env)
    r, rv = repair(t[3], env)
    if op in ("<<", ">>"):
        if rv < 0 or rv > 40:
            rv = abs(rv) % 41
            r = ["lit", rv, "d"]
        if op == "<<" and abs(lv) >= 1 << 80:
            lv = abs(lv) % (1 << 32)
            l = ["lit", lv, "x"]
    if op == "*" and abs(lv * rv) >= 1 << 100:
        rv = abs(rv) % 7
        r = ["lit", rv, "d"]
    n = ["bin", op, l, r]
    return n, X.evaluate(n, env)


def strip_pars(t):
    k = t[0]
    if k in ("lit", "id"):
        return t
    if k == "par":
        return strip_pars(t[1])
    if k in ("neg", "inv"):
        return [k, strip_pars(t[1])]
    return ["bin", t[1], strip_pars(t[2]), strip_pars(t[3])]


def uses(t, what: set[str]) -> bool:
    return any(o in what for o in X.operators(t))


def spacings():
    """list of gap strings consumed left to right by the renderer"""
    return st.lists(st.sampled_from(["", "", " ", " ", "  ", "   "]), min_size=0, max_size=60)


def make_gap(gaps: list[str], default: str = " "):
    it = iter(gaps)

    def gap() -> str:
        return next(it, default)

    return gap


# ---------------------------------------------------------------------------------------------
# seeded constructive builders.  Deep recursive structures (expression trees, program IR) are
# built by plain functions over a random.Random whose seed is the only thing Hypothesis draws:
# st.recursive costs ~100 ms per program-sized example, this costs ~1 ms.  Every case is still a
# pure function of the drawn integer (hence of VERIF_SEED); shrinking is done structurally on the
# JSON case by vlib/runner.shrink, not by Hypothesis.

import random as _random


def seeded(builder, *args, **kwargs):
    """strategy: one 64-bit integer -> builder(random.Random(seed), *args)"""
    return st.integers(0, (1 << 64) - 1).map(lambda s: builder(_random.Random(s), *args, **kwargs))


def r_literal(rng, lit_max: int = 1 << 33):
    k = rng.random()
    if k < 0.4:
        v = rng.choice([b for b in BOUNDARY if b <= lit_max])
    elif k < 0.7:
        v = rng.randint(0, 300)
    else:
        v = rng.randint(0, lit_max)
    return ["lit", v, rng.choice(["d", "x", "x", "X", "b"])]


def r_expr(rng, names=None, max_leaves: int = 8, ops=None, unary=True, inv=True, parens=True, lit_max: int = 1 << 33):
    ops = ops or X.BINOPS

    def leaf():
        if names and rng.random() < 0.35:
            return ["id", rng.choice(names)]
        return r_literal(rng, lit_max)

    def build(budget: int):
        if budget <= 1:
            return leaf()
        k = rng.random()
        if k < 0.62:
            left = rng.randint(1, budget - 1)
            op = rng.choice(ops)
            if op in ("<<", ">>") and rng.random() < 0.6:
                return ["bin", op, build(budget - 1), ["lit", rng.randint(0, 12), rng.choice(["d", "x", "b"])]]
            return ["bin", op, build(left), build(budget - left)]
        if k < 0.78 and unary:
            return ["neg" if (not inv or rng.random() < 0.5) else "inv", build(budget)] if budget > 1 else leaf()
        if k < 0.9 and parens:
            return ["par", build(budget)]
        return ["bin", rng.choice(ops), build(max(1, budget // 2)), build(max(1, budget - budget // 2))]

    # (the unary / parenthesis branches do not consume budget; their nesting is geometric)
    return build(rng.choice([1, 2, 2, 3, 4, max_leaves]))
