"""IR -> IR transformations that must not change the output (model-free metamorphic twins).

  inline_calls   C09: every application written outside macro bodies becomes
                     t_i :=|= arg_i  (bound at the call site, before the block opens)
                     { p_i :=|= t_i ; body with {{code}} splices pasted }
  hand_expand    C10: .if replaced by the statements of the selected branch, .for by one block per
                     value with the loop variable substituted by its literal value (outside macro bodies)
  rename         C08: consistent renaming of one scope-local name
  add_unrelated / add_sibling_duplicate   C08
"""
from __future__ import annotations

import copy

from .model import expr as X
from .model.refasm import Scope


# ---- generic helpers ---------------------------------------------------------------------------

def map_expr(t, f):
    """rebuild tree applying f to every ["id", n] node"""
    k = t[0]
    if k == "lit":
        return t
    if k == "id":
        return f(t)
    if k in ("par", "neg", "inv"):
        return [k, map_expr(t[1], f)]
    return ["bin", t[1], map_expr(t[2], f), map_expr(t[3], f)]


def stmt_exprs(st):
    """(container, key/index) pairs of every expression directly in a statement"""
    k = st["k"]
    out = []
    if k in ("ins",) and st.get("e") is not None:
        out.append((st, "e"))
    elif k == "data":
        out += [(st["es"], i) for i in range(len(st["es"]))]
    elif k == "const":
        out.append((st, "e"))
    elif k == "if":
        out.append((st, "c"))
    elif k == "for":
        out += [(st, "lo"), (st, "hi")]
    elif k == "call":
        out += [(st["args"], i) for i, a in enumerate(st["args"]) if not (isinstance(a, dict) and "code" in a)]
    elif k in ("org", "reloc") and not isinstance(st["a"], int):
        out.append((st, "a"))
    return out


def children(st):
    k = st["k"]
    if k in ("block", "scope", "macro", "for", "include"):
        return [st["b"]]
    if k == "if":
        return [st["t"]] + ([st["e"]] if st.get("e") is not None else [])
    if k == "call":
        return [a["code"] for a in st["args"] if isinstance(a, dict) and "code" in a]
    return []


def walk(stmts, f, in_macro=False):
    for st in stmts:
        f(st, in_macro)
        for c in children(st):
            walk(c, f, in_macro or st["k"] == "macro")


def subst_names(stmts, mapping: dict, stop_on_redefine=True):
    """deep copy with identifiers renamed; a nested scope that defines a renamed name itself keeps it"""
    out = []
    for st in stmts:
        st = dict(st)
        k = st["k"]
        local = dict(mapping)
        for cont, key in stmt_exprs(st):
            pass
        # expressions
        if k == "ins" and st.get("e") is not None:
            st["e"] = map_expr(st["e"], lambda t: ["id", mapping.get(t[1], t[1])])
        elif k == "data":
            st["es"] = [map_expr(e, lambda t: ["id", mapping.get(t[1], t[1])]) for e in st["es"]]
        elif k == "const":
            st["e"] = map_expr(st["e"], lambda t: ["id", mapping.get(t[1], t[1])])
            st["n"] = mapping.get(st["n"], st["n"]) if st.get("_rename_def") else st["n"]
        elif k == "if":
            st["c"] = map_expr(st["c"], lambda t: ["id", mapping.get(t[1], t[1])])
            st["t"] = subst_names(st["t"], mapping)
            if st.get("e") is not None:
                st["e"] = subst_names(st["e"], mapping)
        elif k == "for":
            st["lo"] = map_expr(st["lo"], lambda t: ["id", mapping.get(t[1], t[1])])
            st["hi"] = map_expr(st["hi"], lambda t: ["id", mapping.get(t[1], t[1])])
            inner = {a: b for a, b in mapping.items() if a != st["v"]}
            st["b"] = subst_names(st["b"], inner)
        elif k == "call":
            st["args"] = [({"code": subst_names(a["code"], mapping)} if isinstance(a, dict) and "code" in a
                           else map_expr(a, lambda t: ["id", mapping.get(t[1], t[1])])) for a in st["args"]]
        elif k in ("org", "reloc") and not isinstance(st["a"], int):
            st["a"] = map_expr(st["a"], lambda t: ["id", mapping.get(t[1], t[1])])
        elif k == "splice":
            pass
        if k in ("block", "scope", "include"):
            st["b"] = subst_names(st["b"], mapping)
        elif k == "macro":
            inner = {a: b for a, b in mapping.items() if a not in st["ps"]}
            st["b"] = subst_names(st["b"], inner)
        out.append(st)
    return out


def paste_splices(stmts, code: dict):
    out = []
    for st in stmts:
        if st["k"] == "splice" and st["p"] in code:
            out += copy.deepcopy(code[st["p"]])
            continue
        st = dict(st)
        k = st["k"]
        if k in ("block", "scope", "for", "include"):
            st["b"] = paste_splices(st["b"], code)
        elif k == "if":
            st["t"] = paste_splices(st["t"], code)
            if st.get("e") is not None:
                st["e"] = paste_splices(st["e"], code)
        elif k == "call":
            st["args"] = [({"code": paste_splices(a["code"], code)} if isinstance(a, dict) and "code" in a else a) for a in st["args"]]
        out.append(st)
    return out


# ---- C09: inlined twin ---------------------------------------------------------------------------

def eager_names(ir) -> set:
    names = set()

    def f(st, in_macro):
        if st["k"] == "const" and st["eager"]:
            names.add(st["n"])
        elif st["k"] == "for":
            names.add(st["v"])

    walk(ir, f)
    return names


def inline_calls(ir):
    """-> (twin ir, number of applications inlined)"""
    macros = {}
    eager = eager_names(ir)
    counter = [0]

    def is_eager(t) -> bool:
        return all(n in eager for n in X.idents(t))

    def go(stmts):
        out = []
        for st in stmts:
            k = st["k"]
            if k == "macro":
                macros[st["n"]] = st
                out.append(st)
            elif k == "call" and st["n"] in macros and len(st["args"]) >= len(macros[st["n"]]["ps"]):
                m = macros[st["n"]]
                counter[0] += 1
                n = counter[0]
                mapping, code, binds_out, binds_in = {}, {}, [], []
                for i, (p, a) in enumerate(zip(m["ps"], st["args"])):
                    if isinstance(a, dict) and "code" in a:
                        code[p] = go(a["code"])
                        continue
                    t, q = f"t_{n}_{i}", f"q_{n}_{i}"
                    eg = is_eager(a)
                    binds_out.append({"k": "const", "n": t, "e": a, "eager": eg})
                    # the parameter keeps its own name inside the block (the property binds "each parameter"; nested
                    # applications written in the body see it through the call-site scope exactly as the macro's do)
                    binds_in.append({"k": "const", "n": p, "e": ["id", t], "eager": eg})
                    if eg:
                        eager.update((t, p))
                body = subst_names(paste_splices(m["b"], code), mapping)
                out += binds_out
                out.append({"k": "block", "b": binds_in + body})
            elif k in ("block", "scope", "for", "include"):
                st = dict(st)
                st["b"] = go(st["b"])
                out.append(st)
            elif k == "if":
                st = dict(st)
                st["t"] = go(st["t"])
                if st.get("e") is not None:
                    st["e"] = go(st["e"])
                out.append(st)
            else:
                out.append(st)
        return out

    return go(ir), counter[0]


# ---- C10: hand-expanded twin ------------------------------------------------------------------------

def hand_expand(ir, defines=None):
    """-> (twin ir, stats).  Conditions / bounds are evaluated with the statement's expansion-time
    environment (:= constants in lexical scope, loop variables, undefined => false)."""
    stats = {"ifs": 0, "loops": 0, "iterations": 0, "kept": 0}

    def xeval(t, scope):
        return X.evaluate(t, scope.xlookup)

    def go(stmts, scope):
        out = []
        for st in stmts:
            k = st["k"]
            if k == "const" and st["eager"]:
                try:
                    scope.define(st["n"], xeval(st["e"], scope), x=True)
                except (KeyError, X.Undefined):
                    pass
                out.append(st)
            elif k == "block":
                out.append({"k": "block", "b": go(st["b"], Scope(scope, "block"))})
            elif k == "scope":
                out.append({"k": "scope", "n": st["n"], "b": go(st["b"], Scope(scope, "named", st["n"]))})
            elif k == "include":
                out.append(dict(st, b=go(st["b"], scope)))
            elif k == "if":
                try:
                    c = xeval(st["c"], scope)
                except KeyError:
                    c = 0
                except X.Undefined:
                    stats["kept"] += 1
                    out.append(st)
                    continue
                stats["ifs"] += 1
                if c:
                    out += go(st["t"], scope)
                elif st.get("e") is not None:
                    out += go(st["e"], scope)
            elif k == "for":
                try:
                    lo, hi = xeval(st["lo"], scope), xeval(st["hi"], scope)
                except (KeyError, X.Undefined):
                    stats["kept"] += 1
                    out.append(st)
                    continue
                stats["loops"] += 1
                for v in range(lo, hi):
                    stats["iterations"] += 1
                    it = Scope(scope, "loop")
                    it.define(st["v"], v, x=True)
                    body = subst_value(st["b"], st["v"], v)
                    out.append({"k": "block", "b": go(body, it)})
            elif k == "call":
                # code-block arguments are expanded inside the macro: leave them untouched
                out.append(st)
            else:
                out.append(st)
        return out

    root = Scope(None, "root")
    for k, v in (defines or {}).items():
        root.define(k, v, x=True)
    return go(ir, root), stats


def subst_value(stmts, name, value):
    lit = ["lit", value, "d"] if value >= 0 else ["neg", ["lit", -value, "d"]]
    f = lambda t: (["par", lit] if value < 0 else lit) if t[1] == name else t
    out = []
    for st in stmts:
        st = dict(st)
        k = st["k"]
        if k == "ins" and st.get("e") is not None:
            st["e"] = map_expr(st["e"], f)
        elif k == "data":
            st["es"] = [map_expr(e, f) for e in st["es"]]
        elif k == "const":
            st["e"] = map_expr(st["e"], f)
        elif k == "if":
            st["c"] = map_expr(st["c"], f)
            st["t"] = subst_value(st["t"], name, value)
            if st.get("e") is not None:
                st["e"] = subst_value(st["e"], name, value)
        elif k == "for":
            st["lo"], st["hi"] = map_expr(st["lo"], f), map_expr(st["hi"], f)
            if st["v"] != name:
                st["b"] = subst_value(st["b"], name, value)
        elif k == "call":
            st["args"] = [({"code": subst_value(a["code"], name, value)} if isinstance(a, dict) and "code" in a else map_expr(a, f)) for a in st["args"]]
        elif k in ("org", "reloc") and not isinstance(st["a"], int):
            st["a"] = map_expr(st["a"], f)
        if k in ("block", "scope", "include"):
            st["b"] = subst_value(st["b"], name, value)
        out.append(st)
    return out


# ---- C08: renaming / unrelated definitions -------------------------------------------------------------

def names_in_macro_bodies(ir) -> set:
    names = set()

    def f(st, in_macro):
        if in_macro or st["k"] == "macro":
            for cont, key in stmt_exprs(st):
                names.update(X.idents(cont[key]))
            if st["k"] == "label":
                names.add(st["n"])
        if st["k"] == "call":
            for a in st["args"]:
                if isinstance(a, dict) and "code" in a:
                    walk(a["code"], lambda s2, _: [names.update(X.idents(c[k2])) for c, k2 in stmt_exprs(s2)])

    walk(ir, f)
    return names


def scope_label_sites(ir):
    """[(scope_steps, label name, scope name or None, parent_scope_steps)] for labels defined outside macro bodies.
    scope_steps: navigation ((index, key), ...) from the root list to the statement list of the scope
    that owns the label (labels inside .if branches / includes belong to the enclosing scope)."""
    sites = []

    def go(stmts, steps, scope_steps, scope_name, parent_steps):
        for i, st in enumerate(stmts):
            k = st["k"]
            if k == "label":
                sites.append((scope_steps, st["n"], scope_name, parent_steps))
            elif k in ("block", "for"):
                ns = steps + ((i, "b"),)
                go(st["b"], ns, ns, None, scope_steps)
            elif k == "scope":
                ns = steps + ((i, "b"),)
                go(st["b"], ns, ns, st["n"], scope_steps)
            elif k == "include":
                go(st["b"], steps + ((i, "b"),), scope_steps, scope_name, parent_steps)
            elif k == "if":
                go(st["t"], steps + ((i, "t"),), scope_steps, scope_name, parent_steps)
                if st.get("e") is not None:
                    go(st["e"], steps + ((i, "e"),), scope_steps, scope_name, parent_steps)

    go(ir, (), (), None, ())
    return sites


def navigate(ir, steps):
    stmts = ir
    for idx, key in steps:
        stmts = stmts[idx]
        for k in (key if isinstance(key, (list, tuple)) else (key,)):  # ("args", j, "code"): a block argument of a call
            stmts = stmts[k]
    return stmts


def _defines(stmts, name) -> bool:
    """does this statement list (one scope, including its inline if/include bodies) define `name`?"""
    for st in stmts:
        k = st["k"]
        if k == "label" and st["n"] == name:
            return True
        if k == "const" and st["n"] == name:
            return True
        if k == "incbin" and st["f"].replace(".", "_") == name:
            return True
        if k == "if":
            if _defines(st["t"], name) or (st.get("e") is not None and _defines(st["e"], name)):
                return True
        if k == "include" and _defines(st["b"], name):
            return True
    return False


def rename_in_scope(ir, path, old, new, scope_name, parent_path=()):
    """rename the label `old` defined in the scope at `path` (tuple of statement indexes through
    block/scope/for statements) and every reference that resolves to it lexically"""
    ir = copy.deepcopy(ir)

    def ren_expr(t):
        return map_expr(t, lambda x: ["id", new] if x[1] == old else x)

    def ren_scope(stmts):
        """inside the defining scope or a descendant that does not redefine the name"""
        for st in stmts:
            k = st["k"]
            if k == "label" and st["n"] == old:
                st["n"] = new
            for cont, key in stmt_exprs(st):
                cont[key] = ren_expr(cont[key])
            if k in ("block", "scope"):
                if not _defines(st["b"], old):
                    ren_scope(st["b"])
            elif k == "for":
                if st["v"] != old and not _defines(st["b"], old):
                    ren_scope(st["b"])
            elif k == "if":
                ren_scope(st["t"])
                if st.get("e") is not None:
                    ren_scope(st["e"])
            elif k == "include":
                ren_scope(st["b"])
            elif k == "call":
                for a in st["args"]:
                    if isinstance(a, dict) and "code" in a:
                        ren_scope(a["code"])

    def has_named(stmts, name):
        for st in stmts:
            if st["k"] == "scope" and st["n"] == name:
                return True
            if st["k"] == "if" and (has_named(st["t"], name) or (st.get("e") is not None and has_named(st["e"], name))):
                return True
            if st["k"] == "include" and has_named(st["b"], name):
                return True
        return False

    def ren_qualified(stmts, q_old, q_new, top=True):
        """the parent scope (and its descendants that do not hide it) may mention scope.old; a nested scope that
        itself contains a named scope of the same name sees that nearer one instead"""
        for st in stmts:
            for cont, key in stmt_exprs(st):
                cont[key] = map_expr(cont[key], lambda x: ["id", q_new] if x[1] == q_old else x)
            if st["k"] == "macro":
                continue
            for c in children(st):
                opens_scope = st["k"] in ("block", "scope", "for")
                if opens_scope and has_named(c, scope_name):
                    continue
                ren_qualified(c, q_old, q_new, top=False)

    ren_scope(navigate(ir, path))
    if scope_name is not None:
        # scope.old is visible in the scope that contains the named scope (and below it)
        ren_qualified(navigate(ir, parent_path), f"{scope_name}.{old}", f"{scope_name}.{new}")
    return ir


def add_unrelated(ir, path, name):
    ir = copy.deepcopy(ir)
    navigate(ir, path).append({"k": "label", "n": name})
    return ir


def rename_by_model(ir, label_stmt_locator, new, rom="low", files=None, usermap=None):
    """consistent renaming of ONE label definition and of exactly the references that resolve to it according to the
    reference environment (vlib/model/refasm.py with tracing).  `label_stmt_locator(ir_copy)` returns the label
    statement (dict) inside the copy.  -> renamed copy, or None when the model cannot place the program"""
    from .model import refasm

    ir = copy.deepcopy(ir)
    target = label_stmt_locator(ir)
    asm = refasm.Assembler(rom=rom, files=files, usermap=usermap, trace=True)
    res = asm.run(ir)
    if res.status != "ok" or id(target) not in asm.trace_defs:
        return None
    origin = asm.trace_defs[id(target)]
    wanted: dict = {}
    for sid, written, org in asm.trace_refs:
        if org == origin:
            wanted.setdefault(sid, set()).add(written)

    def new_name(written):
        return written.rsplit(".", 1)[0] + "." + new if "." in written else new

    def fix(st, _in_macro):
        names = wanted.get(id(st))
        if not names:
            return
        for cont, key in stmt_exprs(st):
            cont[key] = map_expr(cont[key], lambda x: ["id", new_name(x[1])] if x[1] in names else x)

    walk(ir, fix)
    target["n"] = new
    return ir


def nest(depth: int, inner: list, kinds=("block", "scope", "if", "for"), tag="d") -> list:
    """`inner` wrapped in `depth` nested constructs (kinds cycling): blocks, named scopes, literal-true .if, one-iteration
    .for loops -- for properties that must hold at any nesting depth"""
    body = inner
    for i in range(depth - 1, -1, -1):
        k = kinds[i % len(kinds)]
        if k == "block":
            body = [{"k": "block", "b": body}]
        elif k == "scope":
            body = [{"k": "scope", "n": f"sc_{tag}{i}", "b": body}]
        elif k == "if":
            body = [{"k": "if", "c": ["lit", 1, "d"], "t": body, "e": None}]
        else:
            body = [{"k": "for", "v": f"i_{tag}{i}", "lo": ["lit", 0, "d"], "hi": ["lit", 1, "d"], "b": body}]
    return body
