"""IR -> a816 source text.  The single place where concrete syntax is chosen.

Layout is explicit: `Layout(None)` is the canonical layout (one statement per line, no indentation,
lower case, single spaces around binary operators and after commas); `Layout(rng, knobs)` applies the
presentation changes listed in property C16, each at every applicable position with its own
probability, and counts which classes it actually used.
"""
from __future__ import annotations

from .model import expr as X
from .model import busmodel

KNOBS = ["blank", "indent", "trailing", "linecomment", "eolcomment", "blockcomment", "opspace", "commaspace", "bracketspace",
         "assignspace", "case_mnemonic", "case_suffix", "case_index", "case_hex", "include", "eof"]

# not part of the default set (C16's statement does not list it): several statements on one line
EXTRA_KNOBS = ["join"]

COMMENT_WORDS = ["todo", "x = 1", "lda #0", "'quoted'", "/* not a block */", "{ }", ";;", "a:b", ".db 1", "*=0x8000", "(", "end",
                 # characters that some line-splitting routines (not the assembler's grammar) take for line ends
                 "page\x0cbreak", "v\x0bt", "ls\u2028ps\u2029", "nel\x85", "fs\x1cgs\x1drs\x1e", "caf\u00e9"]


class Layout:
    def __init__(self, rng=None, knobs=None, p=0.35):
        self.rng = rng
        self.knobs = set(KNOBS if knobs is None else knobs) if rng is not None else set()
        self.p = p
        self.used: dict[str, int] = {}
        self.n_inc = 0

    def on(self, knob: str, p=None) -> bool:
        if knob not in self.knobs:
            return False
        if self.rng.random() < (self.p if p is None else p):
            self.used[knob] = self.used.get(knob, 0) + 1
            return True
        return False

    def spaces(self, knob: str, default: str) -> str:
        if knob in self.knobs and self.rng.random() < 0.6:
            s = self.rng.choice(["", " ", "  ", "   "])
            if s != default:
                self.used[knob] = self.used.get(knob, 0) + 1
            return s
        return default

    def case(self, knob: str, s: str) -> str:
        if knob in self.knobs and s:
            k = self.rng.random()
            if k < 0.35:
                out = s.upper()
            elif k < 0.5:
                out = "".join(c.upper() if self.rng.random() < 0.5 else c.lower() for c in s)
            else:
                out = s.lower()
            if out != s:
                self.used[knob] = self.used.get(knob, 0) + 1
            return out
        return s


class Renderer:
    def __init__(self, layout: Layout | None = None, files: dict | None = None, main_name: str = "main.s"):
        self.lay = layout or Layout(None)
        self.files: dict[str, str] = {}
        self.data_files = files or {}
        self.main_name = main_name
        # (file, line number) of every IR statement's first line: used by C17 / fault injection
        self.positions: list[tuple[str, int, dict]] = []

    # ---- expressions -----------------------------------------------------------------------------
    def expr(self, t) -> str:
        lay = self.lay
        if lay.rng is None:
            return X.render(t)
        t = self._recase(t)
        return X.render(t, sp=lambda: lay.spaces("opspace", " "))

    def _recase(self, t):
        k = t[0]
        if k == "lit":
            if t[2] in ("x", "X") and "case_hex" in self.lay.knobs and self.lay.rng.random() < 0.5:
                nb = "X" if t[2] == "x" else "x"
                if X.render_lit(t[1], nb) != X.render_lit(t[1], t[2]):
                    self.lay.used["case_hex"] = self.lay.used.get("case_hex", 0) + 1
                return ["lit", t[1], nb]
            return t
        if k == "id":
            return t
        if k in ("par", "neg", "inv"):
            return [k, self._recase(t[1])]
        return ["bin", t[1], self._recase(t[2]), self._recase(t[3])]

    def comma(self) -> str:
        lay = self.lay
        if lay.rng is None:
            return ", "
        return lay.spaces("commaspace", "") + "," + lay.spaces("commaspace", " ")

    # ---- statements --------------------------------------------------------------------------------
    def ins(self, st) -> str:
        lay = self.lay
        prefix, inner, outer = st["shape"]
        line = lay.case("case_mnemonic", st["m"])
        if st.get("sfx"):
            line += "." + lay.case("case_suffix", st["sfx"])
        if prefix == "imp":
            return line
        e = self.expr(st["e"])
        br = lambda d: lay.spaces("bracketspace", d) if lay.rng is not None else d
        idx_comma = (lambda: (lay.spaces("commaspace", "") + "," + lay.spaces("commaspace", ""))) if lay.rng is not None else (lambda: ",")
        ii = (idx_comma() + lay.case("case_index", inner)) if inner else ""
        oo = (idx_comma() + lay.case("case_index", outer)) if outer else ""
        if prefix == "#":
            return f"{line} #{br('')}{e}{ii}{oo}"
        if prefix == "":
            return f"{line} {e}{ii}{oo}"
        close = ")" if prefix == "(" else "]"
        # no blank between an inner index and its closing bracket (not a listed transformation)
        pre_close = br("") if not inner else ""
        return f"{line} {prefix}{br('')}{e}{ii}{pre_close}{close}{oo}"

    def assign(self, left: str, op: str, right: str) -> str:
        lay = self.lay
        if lay.rng is None:
            return f"{left} {op} {right}" if op in ("=", ":=") else f"{left}{op}{right}"
        return left + lay.spaces("assignspace", " " if op in ("=", ":=") else "") + op + lay.spaces("assignspace", " " if op in ("=", ":=") else "") + right

    def stmt_lines(self, st, out: list, fname: str):
        """appends the lines of one statement to `out` (list of [text, may_have_eol_comment])"""
        k = st["k"]
        E = self.expr
        if k == "org":
            a = st["a"]
            out.append([self.assign("", "*=", ("0x%06x" % a) if isinstance(a, int) else E(a)), st])
        elif k == "reloc":
            a = st["a"]
            out.append([self.assign("", "@=", ("0x%06x" % a) if isinstance(a, int) else E(a)), st])
        elif k == "label":
            out.append([st["n"] + ":", st])
        elif k == "ins":
            out.append([self.ins(st), st])
        elif k == "data":
            out.append([f".{st['d']} " + self.comma().join(E(e) for e in st["es"]), st])
        elif k == "ascii":
            out.append([f".ascii '{st['s']}'", st])
        elif k == "text":
            out.append([f".text '{st['s']}'", st])
        elif k == "table":
            out.append([f".table '{st['f']}'", st])
        elif k == "incbin":
            out.append([f".incbin '{st['f']}'", st])
        elif k == "ips":
            d = st["delta"]
            out.append([f".include_ips '{st['f']}'" + self.comma() + (f"0x{d:x}" if d >= 0 else f"-0x{-d:x}"), st])
        elif k == "const":
            out.append([self.assign(st["n"], ":=" if st["eager"] else "=", E(st["e"])), st])
        elif k == "block":
            out.append(["{", st])
            self.body(st["b"], out, fname)
            out.append(["}", None])
        elif k == "scope":
            out.append([f".scope {st['n']} {{", st])
            self.body(st["b"], out, fname)
            out.append(["}", None])
        elif k == "macro":
            out.append([f".macro {st['n']}(" + self.comma().join(st["ps"]) + ") {", st])
            self.body(st["b"], out, fname)
            out.append(["}", None])
        elif k == "call":
            parts = []
            cur = f"{st['n']}("
            first = True
            for a in st["args"]:
                if not first:
                    cur += self.comma()
                first = False
                if isinstance(a, dict) and "code" in a:
                    out.append([cur + "{", st if not parts else None])
                    parts.append(1)
                    self.body(a["code"], out, fname)
                    cur = "}"
                else:
                    cur += E(a)
            out.append([cur + ")", st if not parts else None])
        elif k == "splice":
            out.append(["{{" + st["p"] + "}}", st])
        elif k == "if":
            out.append([f".if {E(st['c'])} {{", st])
            self.body(st["t"], out, fname)
            if st.get("e") is not None:
                out.append(["} else {", None])
                self.body(st["e"], out, fname)
            out.append(["}", None])
        elif k == "for":
            out.append([f".for {st['v']} := {E(st['lo'])}, {E(st['hi'])} {{", st])
            self.body(st["b"], out, fname)
            out.append(["}", None])
        elif k == "include":
            text = self.render_file(st["b"], st["f"])
            self.files[st["f"]] = text
            out.append([f".include '{st['f']}'", st])
        elif k == "map":
            s = st["spec"]
            # the numbers of a .map may be written in any base
            line = busmodel.map_line(s, (s["first"] * 5 + s["last"]) % 3)
            out.append([line, st])
        elif k == "raw":
            for ln in st["lines"]:
                out.append([ln, st])
        elif k == "comment":
            out.append(["; " + st["s"], None])
        else:
            raise ValueError(k)

    def body(self, stmts, out: list, fname: str):
        """a statement list; the `include` knob may move a run of complete statements into a file"""
        lay = self.lay
        i = 0
        n = len(stmts)
        while i < n:
            if lay.rng is not None and n - i >= 1 and lay.n_inc < 6 and self._depth < 2 and lay.on("include", 0.08):
                j = min(n, i + lay.rng.randint(1, 4))
                lay.n_inc += 1
                name = f"inc{lay.n_inc}.s"
                self._depth += 1
                self.files[name] = self.render_file(stmts[i:j], name)
                self._depth -= 1
                out.append([f".include '{name}'", None])
                i = j
                continue
            self.stmt_lines(stmts[i], out, fname)
            i += 1

    _depth = 0

    def render_file(self, stmts, fname: str) -> str:
        lines: list = []
        self.body(stmts, lines, fname)
        return self.finish(lines, fname)

    _JOINABLE = {"org", "reloc", "label", "data", "ascii", "text", "const", "table"}

    def _join(self, lines: list) -> list:
        """several statements on one line: a label (or a directive, a position, a definition, an opening / closing brace)
        followed on the same line by the next statement -- the conventional `label: lda #5` style.  Only an instruction
        needs the end of its line."""
        lay, rng = self.lay, self.lay.rng
        out: list = []
        carry = False
        for ln, st in lines:
            if carry:
                out[-1][0] = out[-1][0] + rng.choice([" ", "  ", "\t"]) + ln
                lay.used["join"] = lay.used.get("join", 0) + 1
            else:
                out.append([ln, st])
            first_kind = st["k"] if st is not None else None
            ends_ok = (first_kind in self._JOINABLE) or (st is None and (ln == "}" or ln.endswith("{")) and not ln.endswith("({"))
            # what was appended decides whether the line may go on: the last statement on it must be joinable too
            carry = bool(ends_ok and not (st is not None and st.get("_marker")) and rng.random() < 0.3)
        return out

    def finish(self, lines: list, fname: str) -> str:
        """applies the line-level layout: blank lines, indentation, trailing spaces, comments"""
        lay = self.lay
        text: list[str] = []
        rng = lay.rng
        if rng is not None and "join" in lay.knobs:
            lines = self._join(lines)
        for ln, st in lines:
            if rng is not None:
                while lay.on("blank", 0.15):
                    text.append(rng.choice(["", "", "   ", "\t"]))
                if lay.on("linecomment", 0.12):
                    text.append(rng.choice(["", "  ", "\t"]) + ";" + rng.choice(["", " "]) + rng.choice(COMMENT_WORDS))
                if lay.on("blockcomment", 0.08) and not ln.startswith("} else"):
                    k_ = rng.random()
                    if k_ < 0.2:
                        text.append(rng.choice(["", "  "]) + rng.choice(["/**/", "/***/", "/* */", "/*/*/", "/** **/", "/*\t*/"]))
                    elif k_ < 0.55:
                        text.append(rng.choice(["", "  "]) + "/* " + rng.choice(COMMENT_WORDS).replace("*/", "") + " */")
                    else:
                        text.append("/* " + rng.choice(COMMENT_WORDS).replace("*/", ""))
                        text.append("   lda #0 ; inside a comment")
                        text.append(rng.choice(["", "   "]) + "*/")
                if st is not None and st.get("_marker"):
                    pass  # an injected statement is kept exactly as written
                elif lay.on("indent", 0.4):
                    ln = rng.choice([" ", "  ", "    ", "\t", "\t\t", " \t "]) + ln
                if st is not None and st.get("_marker"):
                    pass
                elif lay.on("eolcomment", 0.15):
                    ln = ln + rng.choice([" ", "  ", "   "]) + ";" + rng.choice(["", " "]) + rng.choice(COMMENT_WORDS)
                elif lay.on("trailing", 0.2):
                    ln = ln + rng.choice([" ", "  ", "    "])
            if st is not None:
                self.positions.append((fname, len(text), st))
            text.append(ln)
        if rng is not None and text and lay.on("eof", 0.3):
            return "\n".join(text)  # the last line ends with the file
        return "\n".join(text) + "\n"


def render(ir, layout: Layout | None = None, main_name: str = "main.s"):
    """-> (main text, {include file name: text}, renderer)"""
    r = Renderer(layout, main_name=main_name)
    main = r.render_file(ir, main_name)
    return main, r.files, r
