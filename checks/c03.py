"""C03 — output holds exactly the emitted bytes at their mapped ROM offsets."""
from __future__ import annotations

import collections
import random

from vlib import add_repo_to_path, driver, gen, progen, render
from vlib.model import busmodel, refasm
from vlib.runner import Outcome

add_repo_to_path()

PROPERTY = "C03"
LEVEL = "exploration"
TECHNIQUE = "Hypothesis-seeded generated programs (explicit-width profile) assembled by a816 and by an independent reference assembler; comparison of the (offset, byte) write multiset, final image, in-block order (each written block is exactly the byte run of one *= placement)"
RULE = (
    "programs of 3-14 top-level statements (nesting <=3) built from sized instructions, unsized literal operands, data directives, .ascii, .incbin (0..70000 bytes), labels and self-pointers, := and = "
    "constants, blocks, named scopes, macros (code-block arguments, conditional recursion), loops, conditionals and any interleaving of *= (ROM targets, edge-weighted) and @= (ROM and RAM targets), under LoROM "
    "and HiROM and generated .map configurations.  Oracle: vlib/model/refasm.py.  Compared: accept/reject agreement; multiset of (offset, byte) writes; final image; bytes of each block in source order (so no block boundary can fall inside a statement).  Non-trivial = (>=2 position moves, or >=1 @=, or >=1 bank crossing) and >=8 emitted bytes; distinct by case hash."
)
LEVEL_TEXT = "Differential exploration against an independent reference assembler that predicts the whole address->byte image of each generated program."
LEVEL_NOTE = "Trusted: vlib/model/refasm.py, busmodel.py, isa.py, expr.py (each self-tested). Outside the statements and skipped when the model says so: *= to RAM, cross-bank branches, widths inferred from layout-time symbols, programs running past the last mapped bank."
DESIGN_REF = "DESIGN.md §3 C03, §2.3"
ASSUMPTIONS = ["explicit-width profile: every operand mentioning a label or = constant carries a size suffix"]

PROFILE = progen.Profile(text=True)


def selftest() -> None:
    refasm.selftest()
    busmodel.selftest()


BIG_PROFILE = progen.Profile(text=True, max_stmts=160, max_depth=5, call_weight=5)


def _build(rng):
    if rng.random() < 0.03:
        # a program of 100+ statements (dozens of labels, scopes and macro applications)
        return progen.generate(rng, BIG_PROFILE)
    if rng.random() < 0.2:
        # a generated .map configuration instead of a built-in mapping
        return progen.generate(rng, PROFILE, rom="low", usermap=progen.random_usermap(rng))
    return progen.generate(rng, PROFILE)


def strategy(tier):
    return gen.seeded(_build)


def hyp_examples(tier):
    return 8000 if tier == "quick" else 150000


def model_files(files):
    from vlib.model import table as T

    out = {}
    for k, v in (files or {}).items():
        out[k] = T.parse_table_file(v) if k.endswith(".tbl") and isinstance(v, str) else driver.file_bytes(v)
    return out


def compare_with_model(case, out: Outcome, label_check=True, profile_name="c03"):
    """shared by C03/C08/C09/C10: returns (model result, real result, source)"""
    ir, rom, files = case["ir"], case["rom"], case.get("files") or {}
    # the textual form is not part of these properties: a third of the programs are written in a random layout (blank lines,
    # comments, spacing around operators / commas / = := *= @=, letter case, no final newline) and with several statements
    # per line (`label: lda #5`, `*=0x8000 .db 1`, `{ .db 1 }`)
    lseed = case.get("join_seed")
    lay = render.Layout(random.Random(lseed), knobs=[k for k in render.KNOBS if k != "include"] + ["join"]) if lseed is not None and lseed % 3 == 0 else None
    src, inc_files, _ = render.render(ir, lay)
    if lay is not None and lay.used.get("join"):
        out.labels.append("statements-joined-on-a-line")
    model = refasm.assemble(ir, rom=rom, files=model_files(files), usermap=case.get("usermap"))
    if case.get("usermap"):
        out.labels.append("user-map")
    allfiles = dict(files)
    allfiles.update(inc_files)
    real = driver.assemble_mem(src, rom=rom, files=allfiles)
    if real.accepted and lseed is not None and lseed % 4 == 1:
        # asking for the symbol listing (Program(dump_symbols=True) / --dump-symbols) only prints: same bytes, same labels
        dumped = driver.assemble_mem(src, rom=rom, files=allfiles, wrap=lambda p: setattr(p, "dump_symbols", True))
        out.labels.append("dump-symbols")
        if not dumped.accepted or dumped["blocks"] != real["blocks"] or sorted(dumped["labels"]) != sorted(real["labels"]):
            out.bad("dump-symbols-changes-output", case, f"with dump_symbols=True the result differs: {dumped['status']} {dumped['exc']} "
                    f"{driver.blocks_json(dumped['blocks'], 16)[:4]} vs {driver.blocks_json(real['blocks'], 16)[:4]}\n{src}")
    st = model.stats
    out.labels += [f"rom:{rom}", f"model:{model.status}"]
    if model.status == "unspecified":
        out.skip = "unspecified: " + model.cause.split("(")[0].strip()
        return model, real, src
    if model.status == "reject":
        out.labels.append("expected-reject")
        if real.accepted:
            out.bad(f"accepted-but-model-rejects:{model.cause.split(' ')[0]}", case, f"model: must be rejected ({model.cause}); a816 accepted it\n{src}")
        return model, real, src
    if not real.accepted:
        out.bad(f"rejected-valid:{real['exc'] or 'error'}@{real['frame']}", case,
                f"model accepts, a816 rejects: {real['status']} {real['exc']} {real.failure_text[:300]}\n{src}")
        return model, real, src
    if model.free_base:
        # bytes emitted before the first *= (a leading @=): only their content / order and the labels are specified
        out.labels.append("leading-reloc")
        gb, wb = b"".join(d for _, d in real["blocks"]), b"".join(d for _, d in model.blocks)
        if gb != wb:
            out.bad("free-base:bytes", case, f"emitted bytes differ (program without a leading *=): {gb[:24].hex()} expected {wb[:24].hex()}\n{src}")
        elif label_check and sorted(real["labels"]) != sorted(model.labels):
            a, b = collections.Counter(real["labels"]), collections.Counter(model.labels)
            out.bad("labels", case, f"label values differ: only real {sorted((a - b).elements())[:6]} only model {sorted((b - a).elements())[:6]}\n{src}")
        return model, real, src
    got = driver.flatten(real["blocks"])
    want = model.writes
    if collections.Counter(got) != collections.Counter(want):
        gi, wi = driver.image(real["blocks"]), model.image()
        diff = sorted(set(gi.items()) ^ set(wi.items()))[:6]
        kind = "bytes-elsewhere" if set(o for o, _ in got) != set(o for o, _ in want) else "wrong-bytes"
        out.bad(f"writes:{kind}", case, f"(offset, byte) writes differ; first differences {[(hex(o), hex(b)) for o, b in diff]}; "
                f"real blocks {driver.blocks_json(real['blocks'], 24)} model blocks {driver.blocks_json(model.blocks, 24)}\n{src}")
        return model, real, src
    if driver.image(real["blocks"]) != model.image():
        out.bad("final-image", case, f"same writes but a different final image (overlapping regions applied in another order)\n{src}")
    # in-block order: after merging consecutive contiguous writer calls (how the bytes are cut into blocks is not part of
    # the property), the sequence of (offset, bytes) runs must be the model's sequence of placements
    from vlib.model import ips as _ips

    if _ips.normalise(real["blocks"]) != _ips.normalise(model.blocks):
        # the multiset of writes is the same (checked above): this is an ordering difference inside a placement or between
        # overlapping placements
        got_n, want_n = _ips.normalise(real["blocks"]), _ips.normalise(model.blocks)
        if sorted(got_n) != sorted(want_n):
            out.bad("block-order", case, f"bytes are not in source order inside a placement: runs {[(hex(o), d[:12].hex()) for o, d in got_n][:6]} expected {[(hex(o), d[:12].hex()) for o, d in want_n][:6]}\n{src}")
    if label_check and sorted(real["labels"]) != sorted(model.labels):
        a, b = collections.Counter(real["labels"]), collections.Counter(model.labels)
        out.bad("labels", case, f"label values differ: only real {sorted((a - b).elements())[:6]} only model {sorted((b - a).elements())[:6]}\n{src}")
    return model, real, src


def run_case(case) -> Outcome:
    out = Outcome(evals=1, labels=[])
    model, real, src = compare_with_model(case, out)
    if out.skip:
        return out
    st = model.stats
    if model.status == "ok":
        nt = (st["moves"] >= 2 or st["reloc"] >= 1 or st["bank_cross"] >= 1) and st["bytes"] >= 8
        out.nontrivial = bool(nt)
        if st["bank_cross"]:
            out.labels.append("bank-crossing")
        if st["reloc"]:
            out.labels.append("reloc")
        if st["moves"] >= 2:
            out.labels.append("moves>=2")
        if st["macro_calls"]:
            out.labels.append("macro")
        if st["loops"]:
            out.labels.append("loop")
        out.labels.append("accepted")
    out.sample = {"rom": case["rom"], "source": src.splitlines()[:30], "model_status": model.status,
                  "blocks": driver.blocks_json(real["blocks"], 16)[:6]}
    return out


ESSENTIAL = {"accepted": 0.5}
