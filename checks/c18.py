"""C18 — table-encoded text follows the table (longest match, escapes, skips), round-trips, and occupies its size."""
from __future__ import annotations

import os

from vlib import add_repo_to_path, driver, gen
from vlib.model import table as T
from vlib.runner import Outcome

add_repo_to_path()

PROPERTY = "C18"
LEVEL = "exploration"
TECHNIQUE = "Hypothesis-seeded generated tables (overlapping multi-character entries, 1-2 byte codes) and strings (table alphabet + unknown characters + [0xNN] escapes and near-escapes), differential against an independent longest-match tokeniser; checked through Table.to_bytes/to_text and through .table/.text in assembled programs with nested scopes"
RULE = (
    "tables of 1-40 entries with texts of 1-3 characters over a small alphabet (so that 'a','b','ab','abc' style overlaps are common; also space, '[', '='), codes of 1-2 bytes, "
    "unique texts; a sub-family with unique prefix-free codes (and a sub-sub-family with single-character texts); strings over the alphabet + unknown characters + [0xN]/[0xNN] escapes + "
    "near-escapes.  Oracle: vlib/model/table.py encode(); round trip to_text(to_bytes(s)) == matched entry texts (prefix-free family, no escapes), == s for single-character tables; in programs: "
    ".text bytes, scope inheritance / override / sibling isolation of .table, label after .text == start + len; one `.text` statement expanded several times (macro body applied under different tables, loop bodies, a macro that loads its own table) uses the table visible where it is expanded.  Non-trivial = a position where >=2 entries match, or an escape, or an unknown "
    "character; distinct by case hash."
)
LEVEL_TEXT = "Differential exploration against an independent tokeniser over generated table/string pairs, both at the Table API and through assembled programs (scoping and occupied size)."
LEVEL_NOTE = "Trusted: vlib/model/table.py (self-tested). Not generated: empty tables, odd-length hex codes, `byte:ignore=` syntax, `\\n` escapes in table texts, quotes/backslashes in strings, [0xNNN] escapes with 3+ digits."
DESIGN_REF = "DESIGN.md §3 C18"
ASSUMPTIONS = ["table file syntax HEX=text, one entry per line"]

ALPHA = "abcxy [=-"
UNKNOWN = "Zq#"


def selftest() -> None:
    T.selftest()


def _table(rng, family: str):
    n = rng.choice([1, 2, 3, 5, 8, 12, 20, 40])
    texts = []
    seen = set()
    tries = 0
    while len(texts) < n and tries < 400:
        tries += 1
        ln = 1 if family == "single" else rng.choice([1, 1, 2, 2, 3])
        t = "".join(rng.choice(ALPHA) for _ in range(ln))
        if t in seen or t.strip() != t and False:
            continue
        seen.add(t)
        texts.append(t)
    entries = []
    used = set()
    for i, t in enumerate(texts):
        if family in ("prefixfree", "single"):
            # unique, prefix-free by construction: one-byte codes 0x00-0x7F, two-byte codes lead with 0x80+
            if rng.random() < 0.6 and len([c for c in used if len(c) == 1]) < 0x70:
                while True:
                    c = bytes([rng.randrange(0x00, 0x80)])
                    if c not in used:
                        break
            else:
                while True:
                    c = bytes([rng.randrange(0x80, 0x100), rng.randrange(256)])
                    if c not in used:
                        break
            used.add(c)
        else:
            c = bytes(rng.randrange(256) for _ in range(rng.choice([1, 1, 2])))
        entries.append([t, c.hex()])
    return entries


def _with_backslash_n(rng, entries):
    """sometimes the table knows the letter n and / or the backslash (one-character entries, fresh codes)"""
    used = {c for _, c in entries}
    for t in ("n", "\\"):
        if rng.random() < 0.5 and all(e[0] != t for e in entries):
            for _ in range(50):
                c = bytes([rng.randrange(0x80, 0x100), rng.randrange(256), rng.randrange(256)]).hex()
                if c not in used:
                    entries.append([t, c])
                    used.add(c)
                    break
    return entries


def _string(rng, entries, escapes=True, unknown=True):
    parts = []
    for _ in range(rng.randint(0, 14)):
        k = rng.random()
        if k < 0.5 and entries:
            parts.append(rng.choice(entries)[0])
        elif k < 0.7:
            parts.append(rng.choice(ALPHA))
        elif k < 0.74:
            # a backslash followed by n is two characters of the string like any other two (only table FILES spell a newline so)
            parts.append(rng.choice(["\\n", "\\n", "n", "\\nn"]))
        elif k < 0.8 and unknown:
            parts.append(rng.choice(UNKNOWN))
        elif k < 0.92 and escapes:
            v = rng.randrange(256)
            parts.append(rng.choice(["[0x%x]", "[0x%X]", "[0x%02x]", "[0x%02X]"]) % v)
        elif escapes:
            parts.append(rng.choice(["[0x", "[0xZZ]", "[0x]", "[x41]", "0x41]", "[0x4"]))
    out = "".join(parts)
    # in a quoted string of a source file a backslash takes the next character with it: only the pair backslash + n is written
    fixed = []
    for i, ch in enumerate(out):
        fixed.append(ch)
        if ch == "\\" and out[i + 1:i + 2] != "n":
            fixed.append("n")
    return "".join(fixed)


def _build(rng):
    family = rng.choice(["general", "general", "prefixfree", "single"])
    entries = _table(rng, family)
    if family == "general":
        entries = _with_backslash_n(rng, entries)
        if rng.random() < 0.3 and entries:
            # an entry whose text looks like a range is an entry like any other
            t = rng.choice(["a-c", "a-b", "b-y", "x-y", "a-a", "c-a"])
            if all(e[0] != t for e in entries):
                entries.append([t, bytes([0x80 + len(entries) % 0x70, rng.randrange(256), 0x5A]).hex()])
    other = _table(rng, "general")
    esc = family == "general" or rng.random() < 0.3
    strings = [_string(rng, entries, escapes=esc) for _ in range(5)]
    mode = rng.choice(["api", "api", "program", "program", "program-sibling-only", "program-expansions"])
    if mode == "api" and family == "general" and rng.random() < 0.3 and all(e[0] != "\n" for e in entries):
        # a table may have an entry for the line break (written backslash + n in the file): a real line break in a string passed to
        # the codec takes its code
        entries.append(["\n", bytes([0x80 + len(entries) % 0x70, 0x0A, rng.randrange(256)]).hex()])
        strings = [s_[: len(s_) // 2] + "\n" + s_[len(s_) // 2:] if i % 2 == 0 else s_ for i, s_ in enumerate(strings)]
    if rng.random() < 0.5 and entries:
        # make sure the last entry of the file is used (the file may end without a line terminator)
        strings[0] = strings[0] + entries[-1][0] + ("n" if entries[-1][0].endswith("\\") else "")
    if rng.random() < 0.06:
        # strings longer than 256 / 512 source characters (entries, escapes and unknown characters across those offsets)
        strings[3] = "".join(_string(rng, entries, escapes=esc) for _ in range(rng.choice([40, 60, 120])))
    if rng.random() < 0.2:
        # an apostrophe entry: in a string it is written \' (the backslash itself has no entry and is skipped), in the
        # middle and as the very last character of the text
        code = next((c for c in ("27", "a7", "9927") if all(c != e[1] for e in entries)), None)
        if code:
            entries.append(["'", code])
            q = "\\'"
            strings[1] = strings[1][: len(strings[1]) // 2] + q + strings[1][len(strings[1]) // 2:]
            strings[2] = strings[2] + q
            strings[4] = q
    return {"family": family, "entries": entries, "other": other, "strings": strings, "mode": mode, "no_final_newline": rng.random() < 0.35,
            "line_ends": rng.choice(["lf", "lf", "lf", "crlf", "crlf", "cr"])}


def strategy(tier):
    return gen.seeded(_build)


def hyp_examples(tier):
    return 15000 if tier == "quick" else 300000


def _ent(entries):
    return [(t, bytes.fromhex(c)) for t, c in entries]


def run_case(case) -> Outcome:
    entries = _ent(case["entries"])
    other = _ent(case["other"])
    strings = case["strings"]
    family = case["family"]
    labels = [f"family:{family}", f"mode:{case['mode']}"]
    nt = False
    for s in strings:
        toks = T.tokenize(entries, s)
        if any(k == "esc" for k, _ in toks):
            labels.append("escape"); nt = True
        if any(k == "skip" for k, _ in toks):
            labels.append("unknown-char"); nt = True
        if T.overlaps(entries, s):
            labels.append("overlap"); nt = True
    out = Outcome(evals=0, nontrivial=nt, labels=labels)
    out.sample = {"table": T.table_file(entries).splitlines()[:8], "strings": strings[:3], "mode": case["mode"]}
    if not entries:
        return Outcome(skip="empty table")
    wd = driver.workdir()
    files = {"t0.tbl": T.table_file(entries), "t1.tbl": T.table_file(other)}
    if case.get("line_ends") in ("crlf", "cr"):
        # a table file saved with CR LF (or CR) line ends reads like any other text file
        nl = "\r\n" if case["line_ends"] == "crlf" else "\r"
        files = {k: v.replace("\n", nl) for k, v in files.items()}
        labels.append("table-line-ends:" + case["line_ends"])
    if case.get("no_final_newline"):
        files = {k: v[:-1] if v.endswith("\n") else v for k, v in files.items()}
        labels.append("table-without-final-newline")
    if case["mode"] == "api":
        from script import Table

        paths = driver.write_files(files)
        try:
            try:
                tbl = Table(os.path.join(wd, "t0.tbl"))
            except Exception as e:
                return out.bad(f"api:load-raised:{type(e).__name__}", case, f"Table() raised {type(e).__name__}: {e}\n{files['t0.tbl']}")
            codes = [c for _, c in entries]
            pf = family in ("prefixfree", "single") and len(set(codes)) == len(codes) and T.prefix_free(codes)
            for s in strings:
                out.evals += 1
                try:
                    got = tbl.to_bytes(s)
                except Exception as e:
                    out.bad(f"api:to_bytes-raised:{type(e).__name__}", case, f"to_bytes({s!r}) raised {type(e).__name__}: {e}\n{files['t0.tbl']}")
                    continue
                want = T.encode(entries, s)
                if got != want:
                    toks = T.tokenize(entries, s)
                    kind = "escape" if any(k == "esc" for k, _ in toks) else "longest-match" if T.overlaps(entries, s) else "skip" if any(k == "skip" for k, _ in toks) else "plain"
                    out.bad(f"api:to_bytes:{kind}", case, f"to_bytes({s!r}) = {got.hex()} expected {want.hex()}\ntable:\n{files['t0.tbl']}")
                    continue
                if pf and not any(k == "esc" for k, _ in T.tokenize(entries, s)):
                    try:
                        back = tbl.to_text(got)
                    except Exception as e:
                        out.bad(f"api:to_text-raised:{type(e).__name__}", case, f"to_text({got.hex()}) raised {type(e).__name__}: {e}")
                        continue
                    wantt = T.matched_text(entries, s)
                    if back != wantt:
                        out.bad("api:round-trip", case, f"to_text(to_bytes({s!r})) = {back!r} expected {wantt!r}\ntable:\n{files['t0.tbl']}")
                    labels.append("round-trip")
                    if family == "single" and all(ch in {t for t, _ in entries} for ch in s) and back != s:
                        out.bad("api:round-trip-single", case, f"single-character table: {s!r} came back as {back!r}")
        finally:
            driver.remove_files(paths)
        return out
    # ---- through assembled programs ---------------------------------------------------------------
    s0, s1, s2, s3, s4 = strings
    org = 0x018000
    if case["mode"] == "program":
        src = (f"*=0x{org:06x}\n.table 't0.tbl'\n.text '{s0}'\nlb_0:\n.dl lb_0\n{{\n.text '{s1}'\n{{\n.table 't1.tbl'\n.text '{s2}'\nlb_2:\n}}\n"
               f".text '{s3}'\n}}\n{{\n.text '{s4}'\n}}\n{{\n{{\n.text '{s1}'\n}}\n}}\n.text '{s0}'\n.table 't1.tbl'\n.text '{s3}'\n{{\n.text '{s4}'\n}}\nlb_end:\n")
        e0 = T.encode(entries, s0)
        seq = [e0, None, T.encode(entries, s1), T.encode(other, s2), T.encode(entries, s3), T.encode(entries, s4), T.encode(entries, s1), e0, T.encode(other, s3), T.encode(other, s4)]
        expected = bytearray()
        addr = org
        lab = {}
        for i, chunk in enumerate(seq):
            if chunk is None:
                lab["lb_0"] = org + len(expected)
                expected += (org + len(expected)).to_bytes(3, "little")
            else:
                expected += chunk
            if i == 3:
                lab["lb_2"] = org + len(expected)
        lab["lb_end"] = org + len(expected)
        res = driver.assemble_mem(src, files=files)
        out.evals += 1
        if not res.accepted:
            return out.bad(f"program:rejected:{res['exc'] or 'error'}@{res['frame']}", case, f"rejected: {res['status']} {res['exc']} {res.failure_text[:300]}\n{src}")
        got = b"".join(d for _, d in res["blocks"])
        if got != bytes(expected):
            # attribute
            pos = 0
            names = ["root .text", "self-pointer (occupied size)", "inherited .text", "overriding .table", "after inner override", "sibling block", "two levels below the table", "root again", "after a second .table in the same scope", "block after the second .table"]
            culprit = "length"
            for nm, chunk in zip(names, [e0, b"\0\0\0"] + seq[2:]):
                n = len(chunk)
                if got[pos:pos + n] != bytes(expected)[pos:pos + n]:
                    culprit = nm
                    break
                pos += n
            return out.bad(f"program:bytes:{culprit}", case, f"emitted {got.hex()} expected {bytes(expected).hex()}\n{src}\nt0:\n{files['t0.tbl']}\nt1:\n{files['t1.tbl']}")
        got_labels = dict(res["labels"])
        for k, v in lab.items():
            if got_labels.get(k) != v:
                out.bad("program:size-in-layout", case, f"label {k} = {got_labels.get(k)} expected {v:#x} (.text must occupy exactly its emitted size)\n{src}")
        return out
    if case["mode"] == "program-expansions":
        # one .text statement expanded several times (macro body, loop body) under different visible tables: every
        # expansion uses the table of the scope it is expanded in (a macro application is a block at the call site)
        src = (f"*=0x{org:06x}\n.macro m_say() {{\n.text '{s0}'\n}}\n.macro m_own() {{\n.table 't1.tbl'\n.text '{s3}'\n}}\n.table 't0.tbl'\nm_say()\n{{\n.table 't1.tbl'\nm_say()\n"
               f".for i_0 := 0, 2 {{\n.text '{s1}'\n}}\n}}\nm_say()\nm_own()\n.for i_1 := 0, 2 {{\n.text '{s2}'\n{{\n.table 't1.tbl'\n.text '{s2}'\n}}\nm_say()\n}}\n.text '{s4}'\n"
               f".for i_2 := 0, 2 {{\n.table 't1.tbl'\n.text '{s1}'\n}}\n.text '{s3}'\n.for i_3 := 0, 2 {{\n.if 1 {{\n.table 't1.tbl'\n}}\n.text '{s2}'\n}}\n.text '{s0}'\n"
               f".scope sc_t {{\n.table 't1.tbl'\n.text '{s4}'\n}}\n.text '{s1}'\n{{\n.text '{s0}'\n.table 't1.tbl'\n.text '{s0}'\n}}\n"
               f".for i_4 := 0, 2 {{\n.text '{s3}'\n.table 't1.tbl'\n.text '{s3}'\n}}\nlb_end:\n")
        E = T.encode
        seq = [("macro under the root table", E(entries, s0)), ("macro under an overriding table", E(other, s0)), ("loop under an overriding table", E(other, s1) * 2),
               ("macro under the root table again", E(entries, s0)), ("macro that loads its own table", E(other, s3)),
               ("loop body with an inner override", (E(entries, s2) + E(other, s2) + E(entries, s0)) * 2), ("root after the expansions", E(entries, s4)),
               ("loop body that loads its own table", E(other, s1) * 2), ("root after a loop that loaded a table", E(entries, s3)),
               ("loop body that loads a table in a taken .if", E(other, s2) * 2), ("root after that loop", E(entries, s0)),
               ("named scope that loads its own table", E(other, s4)), ("root after the named scope", E(entries, s1)),
               ("text before and after a .table in one block", E(entries, s0) + E(other, s0)),
               ("text before and after a .table in a loop body (each iteration starts with the outer table)", (E(entries, s3) + E(other, s3)) * 2)]
        expected = b"".join(c for _, c in seq)
        res = driver.assemble_mem(src, files=files)
        out.evals += 1
        out.labels.append("expansions")
        if not res.accepted:
            return out.bad(f"expansions:rejected:{res['exc'] or 'error'}@{res['frame']}", case, f"rejected: {res['status']} {res['exc']} {res.failure_text[:300]}\n{src}")
        got = b"".join(d for _, d in res["blocks"])
        if got != expected:
            pos, culprit = 0, "length"
            for nm, chunk in seq:
                if got[pos:pos + len(chunk)] != chunk:
                    culprit = nm
                    break
                pos += len(chunk)
            return out.bad(f"expansions:bytes:{culprit}", case, f"emitted {got.hex()} expected {expected.hex()}\n{src}\nt0:\n{files['t0.tbl']}\nt1:\n{files['t1.tbl']}")
        if dict(res["labels"]).get("lb_end") != org + len(expected):
            out.bad("expansions:size-in-layout", case, f"label lb_end = {dict(res['labels']).get('lb_end')} expected {org + len(expected):#x}\n{src}")
        return out
    # sibling-only: a table loaded in one block must not be visible in a sibling block
    src = f"*=0x{org:06x}\n{{\n.table 't1.tbl'\n.text '{s0}'\n}}\n{{\n.text '{s1}'\n}}\n"
    res = driver.assemble_mem(src, files=files)
    out.evals += 1
    if res.accepted:
        out.bad("program:sibling-inherits-table", case, f"a .text in a sibling block used a table it cannot see; emitted {b''.join(d for _, d in res['blocks']).hex()}\n{src}")
    return out


ESSENTIAL = {"overlap": 0.2, "escape": 0.2, "unknown-char": 0.2, "round-trip": 0.1}
