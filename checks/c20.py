"""C20 — legacy address conversions agree with the assembler's mapping and the textbook formulas."""
from __future__ import annotations

import warnings

from hypothesis import strategies as st

from vlib import add_repo_to_path, driver
from vlib.model import busmodel
from vlib.runner import Outcome

add_repo_to_path()

PROPERTY = "C20"
LEVEL = "exploration"
TECHNIQUE = "exhaustive enumeration of all 4 MiB ROM offsets x 3 modes (differential against textbook formulas and the assembler's own Bus), plus enumerated/Hypothesis (base, pointer) pairs for the pointer formulas"
RULE = (
    "every ROM offset 0..0x3FFFFF x {low_rom, low_rom_2, high_rom} (thorough: all 12.6 M; quick: every 32K/64K boundary +-2 and a "
    "stride-257 sweep): rom_to_snes == textbook address; Bus.get_address(that).physical == offset wherever the assembler's bus maps it "
    "as ROM (the built-in buses, and a fresh Program set to the mode after a .map program ran in the same process); snes_to_rom(rom_to_snes(o)) == o (low_rom_2 only below 0x200000).  Pointer formulas on boundary (base, p) pairs and all "
    "65536 two-byte values.  Non-trivial = offset within 2 of a 32 KiB boundary, or a bank >= 0x70 (beyond the LoROM bus map), or a "
    "pointer pair whose sum crosses a bank; distinct by construction (enumeration) / case hash (Hypothesis)."
)
LEVEL_TEXT = ("Complete enumeration of the 4 MiB x 3-mode domain in the thorough tier (boundary-complete sweep in the quick tier) against two "
              "independent references: the textbook formula and the assembler's own Bus objects.")
LEVEL_NOTE = "Trusted: vlib/model/busmodel.py textbook formulas (self-tested); DeprecationWarnings silenced. low_rom_2 round-trip is only required below 0x200000 as the property states."
DESIGN_REF = "DESIGN.md §3 C20"
ASSUMPTIONS = ["offsets limited to the 4 MiB space named in the property", "base + p < 0x400000 for the pointer formulas"]

MODES = ("low", "low2", "high")


def selftest() -> None:
    busmodel.selftest()
    assert busmodel.rom_to_snes(0x123456, "low") == 0x24B456
    assert busmodel.rom_to_snes(0x123456, "high") == 0xD23456


def _funcs():
    from a816.cpu.cpu_65c816 import RomType, rom_to_snes, snes_to_rom

    return RomType, rom_to_snes, snes_to_rom


def _buses(mode):
    """the assembler's buses under which the address must map back to the offset"""
    from a816.symbols import BUS_MAPPING
    from a816.cpu.cpu_65c816 import RomType

    out = []
    if mode == "low":
        out.append(("low", BUS_MAPPING[RomType.low_rom], busmodel.lorom()))
    elif mode == "high":
        out.append(("high", BUS_MAPPING[RomType.high_rom], busmodel.hirom()))
    else:
        out.append(("low-mirror", BUS_MAPPING[RomType.low_rom], busmodel.lorom()))
        if RomType.low_rom_2 in BUS_MAPPING:
            out.append(("low2", BUS_MAPPING[RomType.low_rom_2], None))
    return out


def _check_offset(out, mode, o, fns, buses, sub):
    RomType, rom_to_snes, snes_to_rom = fns
    rt = driver.rom_type(mode)
    try:
        a = rom_to_snes(o, rt)
    except Exception as e:
        out.bad(f"rom_to_snes:{mode}:raised", sub, f"rom_to_snes({o:#x},{mode}) raised {type(e).__name__}: {e}")
        return
    exp = busmodel.rom_to_snes(o, mode)
    if a != exp:
        out.bad(f"rom_to_snes:{mode}", sub, f"rom_to_snes({o:#x},{mode}) = {a:#x}, textbook {exp:#x}")
        return
    for name, bus, model in buses:
        if model is not None and model.kind(exp) != "rom":
            continue
        try:
            phys = bus.get_address(a).physical
        except KeyError:
            phys = "KeyError"  # the bus the assembler uses for this mode must map every address rom_to_snes produces
        if phys != o:
            out.bad(f"bus-agreement:{mode}:{name}", sub, f"{mode}: rom_to_snes({o:#x})={a:#x} but Bus({name}).physical = {phys}")
    if mode != "low2" or o < 0x200000:
        try:
            back = snes_to_rom(a)
        except Exception as e:
            back = type(e).__name__
        if back != o:
            out.bad(f"snes_to_rom:{mode}", sub, f"snes_to_rom(rom_to_snes({o:#x},{mode})={a:#x}) = {back}")


def enum_units(tier, seed):
    units = []
    for mode in MODES:
        if tier == "thorough":
            for lo in range(0, 0x400000, 0x10000):
                units.append({"t": "range", "mode": mode, "lo": lo, "hi": lo + 0x10000, "step": 1})
        else:
            for lo in range(0, 0x400000, 0x40000):
                units.append({"t": "edges", "mode": mode, "lo": lo, "hi": lo + 0x40000, "seed": seed})
    for mode in MODES:
        units.append({"t": "via-program", "mode": mode, "seed": seed})
        units.append({"t": "via-assembly", "mode": mode, "seed": seed})
    units.append({"t": "interleaved", "seed": seed})
    units.append({"t": "ptr16"})
    units.append({"t": "ptr24"})
    return {"units": units, "exhaustive": tier == "thorough"}


def unit_cases(unit):
    yield unit


def hyp_examples(tier):
    return 300 if tier == "quick" else 20000


def strategy(tier):
    edge = st.sampled_from([0, 1, 0x7FFE, 0x7FFF, 0x8000, 0x8001, 0xFFFF, 0x10000, 0x1FFFFF, 0x200000, 0x37FFFF, 0x380000, 0x3FFFFE])
    base = st.one_of(edge, st.integers(0, 0x3FFFFF))

    @st.composite
    def cases(draw):
        b = draw(base)
        p = draw(st.one_of(st.sampled_from([0, 1, 0x7FFF, 0x8000, 0xFFFF]), st.integers(0, 0x3FFFFF)))
        p = min(p, 0x3FFFFF - b)
        v = draw(st.binary(min_size=2, max_size=2))
        return {"t": "ptr1", "base": b, "p": p, "v": list(v)}

    return cases()


def _check_ptr(out, base, p, v, sub):
    from script.formulas import base_relative_16bits_pointer_formula, long_low_rom_pointer

    try:
        got = long_low_rom_pointer(base)(p)
    except Exception as e:
        got = f"{type(e).__name__}: {e}"
    a = busmodel.rom_to_snes(base + p, "low")
    exp = bytes([a & 0xFF, (a >> 8) & 0xFF, (a >> 16) & 0xFF])
    if got != exp:
        out.bad("long_low_rom_pointer", sub, f"long_low_rom_pointer({base:#x})({p:#x}) = {got!r}, expected {exp.hex()}")
    try:
        got2 = base_relative_16bits_pointer_formula(base)(bytes(v))
    except Exception as e:
        got2 = f"{type(e).__name__}: {e}"
    exp2 = (v[0] | (v[1] << 8)) + base
    if got2 != exp2:
        out.bad("base_relative_16bits_pointer_formula", sub, f"base_relative_16bits_pointer_formula({base:#x})({bytes(v).hex()}) = {got2}, expected {exp2:#x}")


def run_case(case) -> Outcome:
    warnings.simplefilter("ignore")
    t = case["t"]
    out = Outcome(evals=0, nontrivial=0)
    if t in ("range", "edges", "off1"):
        mode = case["mode"]
        fns = _funcs()
        buses = _buses(mode)
        if t == "off1":
            offs = [case["o"]]
        elif t == "range":
            offs = range(case["lo"], case["hi"], case["step"])
        else:
            s = set()
            for b in range(case["lo"], case["hi"] + 1, 0x8000):
                for d in (-2, -1, 0, 1, 2):
                    if case["lo"] <= b + d < case["hi"]:
                        s.add(b + d)
            s.update(range(case["lo"] + (case["seed"] * 31) % 257, case["hi"], 257))
            offs = sorted(s)
        nt = 0
        for o in offs:
            _check_offset(out, mode, o, fns, buses, {"t": "off1", "mode": mode, "o": o})
            lowbits = o & 0x7FFF
            if lowbits <= 2 or lowbits >= 0x7FFD or (mode != "high" and (o >> 15) >= 0x70):
                nt += 1
        out.evals = len(offs)
        out.nontrivial = nt
        out.labels = [f"offsets:{mode}"]
        if t != "off1" and case["lo"] in (0, 0x200000, 0x380000):
            o = case["lo"] + 0x7FFF
            RomType, r2s, s2r = fns
            out.sample = {"mode": mode, "offset": f"{o:#x}", "rom_to_snes": f"{r2s(o, driver.rom_type(mode)):#x}",
                          "textbook": f"{busmodel.rom_to_snes(o, mode):#x}", "offsets_in_unit": len(offs)}
        return out
    if t == "via-program":
        # "the mapping the assembler uses" taken from an assembler instance: a fresh Program set to this mode, created
        # after other programs (one of them with its own .map) were assembled in this process
        from a816.program import Program

        mode = case["mode"]
        fns = _funcs()
        _, r2s, _ = fns
        driver.assemble_mem(".map identifier=1 bank_range=0x00, 0x3f addr_range=0x8000, 0xffff mask=0x8000 mirror_bank_range=0x80, 0xbf\n*=0x018000\n.db 1\n")
        driver.assemble_mem("*=0xC08000\n.db 1\n", rom="high")
        prog = Program()
        prog.set_mapping(mode)
        offs = sorted({b + d for b in range(0, 0x400001, 0x8000) for d in (-1, 0, 1) if 0 <= b + d < 0x400000} | set(range((case["seed"] * 131) % 4099, 0x400000, 4099)))
        for o in offs:
            a = busmodel.rom_to_snes(o, mode)
            try:
                phys = prog.get_physical_address(r2s(o, driver.rom_type(mode)))
            except Exception as e:
                phys = type(e).__name__
            if phys != o and not (mode == "low" and busmodel.lorom().kind(a) != "rom"):
                out.bad(f"program-bus:{mode}", {"t": "via-program", "mode": mode, "seed": case["seed"]},
                        f"{mode}: a Program set to this mapping translates rom_to_snes({o:#x})={a:#x} to {phys}, not back to the offset")
                break
        out.evals, out.nontrivial = len(offs), len(offs)
        out.labels = [f"via-program:{mode}"]
        out.sample = {"mode": mode, "offsets": len(offs), "history": "a .map program and a HiROM program assembled first"}
        return out
    if t == "via-assembly":
        # "the mapped file offset" as the assembler itself writes it: one program that moves to rom_to_snes(o) for many offsets
        # o in a shuffled order (offset 0 and the bank edges are revisited after other positions) and writes a marker there
        import random

        mode = case["mode"]
        _, r2s, _ = _funcs()
        rng = random.Random(case["seed"])
        top = 0x3F0000 if mode != "low" else 0x3F0000
        offs = [0, 1, 0x7FFF, 0x8000, 0xFFFF, 0x10000, 0x1FFFFF, 0x200000, 0x377FFE, 0x378000, 0x37FFF0, 0x3EFFFE, 0x3F0000, 0x3F7FFE, 0x3F8000, 0x3FFFF0] + [rng.randrange(0, top) for _ in range(120)]
        offs = [o for o in dict.fromkeys(offs) if busmodel.builtin(mode).kind(busmodel.rom_to_snes(o, mode)) == "rom"]
        rng.shuffle(offs)
        if offs[0] == 0:
            offs.append(offs.pop(0))
        offs += [0, offs[0]]  # back to the first ROM byte, and to the first position, at the end
        lines, want = [], []
        for i, o in enumerate(offs):
            a = r2s(o, driver.rom_type(mode))
            lines.append(f"{'*=' if i % 3 else '@=0x7e0000' + chr(10) + '*='}0x{a:06x}\n.db 0x{i & 0xFF:02x}, 0x{(o >> 8) & 0xFF:02x}\n")
            data = bytes([i & 0xFF, (o >> 8) & 0xFF])
            if i % 4 == 1:
                # the code that follows runs somewhere else in ROM (@=): it is still stored right behind what was written
                lines.append(f"@=0x{r2s(offs[(i * 7) % len(offs)], driver.rom_type(mode)):06x}\n.db 0x77\n")
                data += b"\x77"
            want.append((o, data))
        res = driver.assemble_mem("".join(lines), rom=mode)
        sub = {"t": "via-assembly", "mode": mode, "seed": case["seed"]}
        if not res.accepted:
            out.bad(f"assembly:{mode}:rejected", sub, f"{mode}: program of `*=rom_to_snes(o)` positions rejected: {res['exc']} {res.failure_text[:200]}")
        else:
            got = [(a, bytes(d)) for a, d in res["blocks"]]
            if got != want:
                k = next((i for i, (g, w) in enumerate(zip(got, want)) if g != w), min(len(got), len(want)))
                out.bad(f"assembly:{mode}:offset", sub, f"{mode}: write #{k} after `*=rom_to_snes({want[k][0] if k < len(want) else 0:#x})`: expected block {want[k] if k < len(want) else None}, "
                        f"got {got[k] if k < len(got) else None} ({len(got)} blocks, {len(want)} expected)")
        out.evals, out.nontrivial = len(offs), len(offs)
        out.labels = [f"via-assembly:{mode}"]
        out.sample = {"mode": mode, "positions": len(offs), "first": lines[:3]}
        return out
    if t == "interleaved":
        # three assemblers alive at once, one per mode, asked in turn about the same offset (and so, again and again, about the same
        # bank numbers): each answers with its own mapping
        from a816.program import Program

        _, r2s, _ = _funcs()
        progs = {}
        for mode in MODES:
            progs[mode] = Program()
            progs[mode].set_mapping(mode)
        offs = sorted({b + d for b in range(0, 0x400000, 0x8000) for d in (0, 0x7FFF)} | set(range((case["seed"] * 977) % 1021, 0x400000, 1021)))
        n = 0
        for o in offs:
            for mode in MODES:
                a = busmodel.rom_to_snes(o, mode)
                if busmodel.builtin(mode).kind(a) != "rom":
                    continue
                try:
                    phys = progs[mode].get_physical_address(r2s(o, driver.rom_type(mode)))
                except Exception as e:
                    phys = type(e).__name__
                n += 1
                if phys != o:
                    out.bad(f"interleaved:{mode}", {"t": "interleaved", "seed": case["seed"]}, f"{mode}: asked right after the other modes, rom_to_snes({o:#x})={a:#x} translates to {phys}")
                    break
            if out.violations:
                break
        out.evals, out.nontrivial = n, n
        out.labels = ["interleaved"]
        out.sample = {"offsets": len(offs), "modes": list(MODES)}
        return out
    if t == "ptr16":
        n = 0
        for base in (0, 1, 0x8000, 0xFFFF, 0x10000, 0x3F0000):
            for v in range(0, 0x10000, 1):
                _check_ptr_16(out, base, v)
                n += 1
        out.evals, out.nontrivial = n, 6 * 512
        out.labels = ["ptr16"]
        out.sample = {"base_relative_16bits_pointer_formula": "6 bases x all 65536 two-byte values"}
        return out
    if t == "ptr24":
        bset = [0, 1, 0x7FFF, 0x8000, 0x8001, 0xFFFF, 0x10000, 0x12345, 0x1FFFFF, 0x200000, 0x37FFFF, 0x380000, 0x3FFFFF]
        pset = [0, 1, 2, 0x7FFE, 0x7FFF, 0x8000, 0x8001, 0xFFFF, 0x10000, 0x1FFFFF, 0x3FFFFF]
        n = nt = 0
        for b in bset:
            for p in pset:
                if b + p >= 0x400000:
                    continue
                _check_ptr(out, b, p, [p & 0xFF, (p >> 8) & 0xFF], {"t": "ptr1", "base": b, "p": p, "v": [p & 0xFF, (p >> 8) & 0xFF]})
                n += 1
                if (b >> 15) != ((b + p) >> 15):
                    nt += 1
        out.evals, out.nontrivial = n, nt
        out.labels = ["ptr24"]
        out.sample = {"long_low_rom_pointer": f"{len(bset)} bases x {len(pset)} pointers (boundary pairs)"}
        return out
    if t == "ptr1":
        _check_ptr(out, case["base"], case["p"], case["v"], case)
        out.evals = 1
        out.nontrivial = (case["base"] >> 15) != ((case["base"] + case["p"]) >> 15)
        out.labels = ["ptr-random"]
        out.sample = {"base": case["base"], "p": case["p"], "v": case["v"]}
        return out
    raise ValueError(t)


def _check_ptr_16(out, base, v):
    from script.formulas import base_relative_16bits_pointer_formula

    b = bytes([v & 0xFF, v >> 8])
    try:
        got = base_relative_16bits_pointer_formula(base)(b)
    except Exception as e:
        got = f"{type(e).__name__}"
    if got != v + base:
        out.bad("base_relative_16bits_pointer_formula", {"t": "ptr1", "base": base, "p": 0, "v": [v & 0xFF, v >> 8]},
                f"base_relative_16bits_pointer_formula({base:#x})({b.hex()}) = {got}, expected {v + base:#x}")
