"""C17 — errors point at the statement that caused them (fault enumeration over insertion positions)."""
from __future__ import annotations

import copy
import os
import random
import re

from vlib import add_repo_to_path, driver, gen, progen, render, twins
from vlib.runner import Outcome

add_repo_to_path()

PROPERTY = "C17"
LEVEL = "fault_enumeration"
TECHNIQUE = "fault enumeration: each erroneous statement inserted at every line boundary where a statement may start (main file, blocks, scopes, taken conditionals, applied macro bodies, included files) of Hypothesis-seeded generated hosts rendered with blank lines, comments, multi-line comments and indentation; the reported file / zero-based line / quoted text / column are compared with the location computed from the rendered text"
RULE = (
    "hosts: generated valid programs rendered with random blank lines, full-line and end-of-line ';' comments, single- and multi-line '/* */' comments, indentation, strings with escaped quotes, split into .include files.  "
    "Erroneous statements: `lda.w undef_zz`, `.db 1, undef_zz`, `.dw undef_zz` (semantic: inserted wherever the statement is certainly assembled), `lda.q 5`, `lda 5,q`, `lda 5,` and `lda (5,` with nothing after the comma, `.text 'abc` + newline, `.ascii 'abc` + newline, `.text 'abc` at "
    "end of file (lexical: inserted at every statement boundary, including macro bodies, block arguments of macro calls, loops and untaken branches), each with random indentation and an optional trailing comment, 1 in 7 behind 998 - 10 000 filler lines.  Oracle: the failure text contains "
    "<file>:<zero-based line> followed by a non-digit, with the file that holds the statement, and quotes that line's text; lexical errors give :<col> in the set of defensible columns (bad suffix: the suffix character or the dot; "
    "bad index: the offending character or the comma; unterminated string: the opening quote or the end of the line).  Non-trivial = line > 0 with a comment / blank / multi-line construct before it, or inside an included file; "
    "distinct = distinct (host, fault, position) tuples."
)
LEVEL_TEXT = "Fault enumeration over every insertion position of varied hosts; the expected location is computed from the rendered text alone, so independence from the prefix is implied."
LEVEL_NOTE = "Trusted: vlib/render.py position bookkeeping (self-tested). Only the four error families named in the property are injected."
DESIGN_REF = "DESIGN.md §3 C17"
ASSUMPTIONS = ["error text format: NodeError '... at\\n<file>:<line> <text>'; scanner errors '<file>:<line>:<col> : message\\n<text>\\n<caret>'"]

SHARD_MIN = 4
PROFILE = progen.Profile(max_stmts=9, includes=True, reloc_ram=False, big_incbin=False, incbin=False, min_calls=1)
HOST_KNOBS = ["blank", "indent", "trailing", "linecomment", "eolcomment", "blockcomment", "opspace", "commaspace"]

SEMANTIC = {
    "undefined-operand": "lda.w undef_zz",
    "undefined-db": ".db 1, undef_zz",
    "undefined-dw": ".dw undef_zz",
    "undefined-dl": ".dl 0x123456, undef_zz",
    "undefined-pointer": ".pointer undef_zz",
    "undefined-pointer-list": ".pointer 0x01, undef_zz + 1",
    "undefined-indexed-operand": "sta.l undef_zz,x",
    "undefined-immediate": "lda.b #undef_zz & 0xff",
    # a statement written over several lines (a value list goes on after a comma): its line is the line it starts on
    "undefined-in-continued-list": ".dw 1,\n    2,\n    undef_zz",
    "undefined-in-continued-list-middle": ".dl 0x123456,\n  undef_zz + 1,\n  3",
}
LEXICAL = {
    "bad-suffix": "lda.q 5",
    "empty-suffix": "lda.",                            # the line ends after the dot
    "bad-index": "lda 5,q",
    "missing-index": "lda 5,",                         # the line ends after the comma
    "missing-inner-index": "lda (5,",
    "unterminated-text": ".text 'abc",
    "unterminated-ascii": ".ascii 'abc",
    "unterminated-backslash": ".ascii 'abc\\",       # the string ends with a backslash
    "unterminated-escaped-quote": ".text 'ab\\'",      # the only closing quote is escaped
    "unterminated-with-semicolon": ".ascii 'a;b",
}


def selftest() -> None:
    ir = [{"k": "org", "a": 0x8000}, {"k": "block", "b": [{"k": "raw", "lines": ["MARK"]}]}, {"k": "include", "f": "x.s", "b": [{"k": "label", "n": "a"}, {"k": "raw", "lines": ["MARK2"]}]}]
    main, files, r = render.render(ir)
    pos = {st["lines"][0]: (f, ln) for f, ln, st in r.positions if st["k"] == "raw"}
    assert pos["MARK"] == ("main.s", 2) and main.splitlines()[2] == "MARK", (pos, main)
    assert pos["MARK2"] == ("x.s", 1) and files["x.s"].splitlines()[1] == "MARK2"


def _build(rng):
    case = progen.generate(rng, PROFILE)
    # strings with escaped quotes / comment-like content before the fault
    for _ in range(rng.randint(0, 2)):
        case["ir"].insert(rng.randint(1, len(case["ir"])), {"k": "raw", "lines": [rng.choice([".ascii 'it\\'s'", ".ascii '; not a comment'", ".ascii '/* nor this */'", ".ascii 'a\\'b\\'c'"])]})
    case["t"] = "host"
    case["layout_seed"] = rng.randint(0, 1 << 30)
    case["pick"] = rng.randint(0, 1 << 30)
    return case


def strategy(tier):
    return gen.seeded(_build)


def hyp_examples(tier):
    return 160 if tier == "quick" else 4000


def enum_units(tier, seed):
    org = {"k": "org", "a": 0x008000}
    host = [org, {"k": "data", "d": "db", "es": [["lit", 1, "d"]]}, {"k": "data", "d": "db", "es": [["lit", 2, "d"]]}]
    cases = []
    for f in list(SEMANTIC) + list(LEXICAL):
        for idx in (0, 1, 2, 3):
            cases.append({"t": "one", "rom": "low", "ir": host, "files": {}, "layout_seed": None, "fault": f, "steps": [], "index": idx, "indent": "  ", "tail": "", "eof": False})
    cases.append({"t": "one", "rom": "low", "ir": host, "files": {}, "layout_seed": None, "fault": "unterminated-text", "steps": [], "index": 3, "indent": "", "tail": "", "eof": True})
    for f in SEMANTIC:
        cases.append({"t": "one", "rom": "low", "ir": host, "files": {}, "layout_seed": None, "fault": f, "steps": [], "index": 3, "indent": "", "tail": "", "eof": False, "decoy": True})
    return {"units": [{"cases": cases}], "exhaustive": False}


def unit_cases(unit):
    return unit["cases"]


def _called_macros(ir):
    called = set()

    def go(stmts):
        for st in stmts:
            if st["k"] == "call":
                called.add(st["n"])
            elif st["k"] in ("block", "scope", "include"):
                go(st["b"])
            elif st["k"] == "if" and st["c"][0] == "lit" and st["c"][1] != 0:
                go(st["t"])

    go(ir)
    return called


def insertion_points(ir, loops=False):
    """[(steps, index, certain)] — certain: a statement there is certainly assembled"""
    pts = []
    called = _called_macros(ir)
    macros = {}
    twins.walk(ir, lambda st, im: macros.setdefault(st["n"], st) if st["k"] == "macro" else None)

    def go(stmts, steps, certain, in_code_arg=False):
        for i in range(len(stmts) + 1):
            pts.append((steps, i, certain))
        for i, st in enumerate(stmts):
            k = st["k"]
            if k in ("block", "scope", "include"):
                go(st["b"], steps + ((i, "b"),), certain)
            elif k == "macro":
                # body statements are assembled when the macro is applied from an always-assembled place and the body
                # position itself is unconditional
                go(st["b"], steps + ((i, "b"),), certain and st["n"] in called)
            elif k == "for":
                lit = st["lo"][0] == "lit" and st["hi"][0] == "lit" and st["hi"][1] > st["lo"][1]
                go(st["b"], steps + ((i, "b"),), certain and loops and lit)
            elif k == "call":
                # a block handed to a macro is assembled where the body splices it: certain when the call is and the
                # macro body splices that parameter unconditionally
                mdef = macros.get(st["n"])
                for j, a in enumerate(st["args"]):
                    if isinstance(a, dict) and "code" in a:
                        spliced = mdef is not None and j < len(mdef["ps"]) and any(b["k"] == "splice" and b["p"] == mdef["ps"][j] for b in mdef["b"])
                        go(a["code"], steps + ((i, ("args", j, "code")),), certain and spliced)
            elif k == "if":
                taken = st["c"][0] == "lit" and st["c"][1] != 0
                go(st["t"], steps + ((i, "t"),), certain and taken)
                if st.get("e") is not None:
                    go(st["e"], steps + ((i, "e"),), certain and st["c"][0] == "lit" and st["c"][1] == 0)

    go(ir, (), True)
    return pts


def _layout(seed):
    return render.Layout(random.Random(seed), knobs=HOST_KNOBS) if seed is not None else None


def check_one(out, case, sub):
    """inject, render, assemble, compare the reported location"""
    fault = sub["fault"]
    stmt_text = SEMANTIC.get(fault) or LEXICAL[fault]
    line_text = sub["indent"] + stmt_text + sub["tail"]
    ir = copy.deepcopy(case["ir"])
    marker = {"k": "raw", "lines": [line_text], "_marker": True}  # (a statement of several lines is one entry: nothing is put between its lines)
    twins.navigate(ir, tuple(tuple(s) for s in sub["steps"])).insert(sub["index"], marker)
    if sub.get("decoy"):
        # the same statement texts occur earlier in the program where they are valid (a block of its own defines the name)
        at = next((i for i, st in enumerate(ir) if st["k"] in ("org", "reloc")), -1) + 1
        ir.insert(at, {"k": "raw", "lines": ["{", "undef_zz:"] + [v for v in SEMANTIC.values() if "\n" not in v] + ["}"]})
    lay = _layout(case.get("layout_seed"))
    if lay is not None:
        # the faulty line itself must stay as written: line-level decorations are applied to other lines only
        pass
    main, files, r = render.render(ir, lay)
    loc = [(f, ln) for f, ln, st in r.positions if st.get("_marker")]
    if len(loc) != 1:
        raise RuntimeError("marker position not found")
    fname, lineno = loc[0]
    text = main if fname == "main.s" else files[fname]
    lines = text.split("\n")
    actual_line = lines[lineno]
    if sub.get("eof"):
        # cut the file right after the faulty statement (no trailing newline)
        lines = lines[: lineno + 1]
        text = "\n".join(lines)
        if fname == "main.s":
            main = text
        else:
            return None  # only the main file can end inside the statement and still be reached
    shown = fname
    pre = sub.get("incprefix") or ""
    if pre and fname != "main.s":
        # the included file is named with a leading ./ , through a ../<dir>/ detour or by its absolute path: the error names it
        # the way the directive does
        wd = driver.workdir()
        shown = {"./": "./" + fname, "../": "../" + os.path.basename(wd) + "/" + fname, "abs": os.path.join(wd, fname)}[pre]
        old_d, new_d = f".include '{fname}'", f".include '{shown}'"
        main = main.replace(old_d, new_d)
        files = {k: v.replace(old_d, new_d) if isinstance(v, str) else v for k, v in files.items()}
        text = text.replace(old_d, new_d)
    pad = sub.get("pad") or 0
    if pad:
        # a long file: the statement sits beyond line 1000 (blank lines and comments in front of everything)
        padding = "".join(("; filler line %d\n" % i) if i % 3 else "\n" for i in range(pad))
        text = padding + text
        lineno += pad
        if fname == "main.s":
            main = text
    if fname != "main.s":
        files[fname] = text
    res = driver.assemble_mem(main, rom=case["rom"], files={**(case.get("files") or {}), **files})
    out.evals += 1
    where = "include" if fname != "main.s" else "main"
    if res.accepted:
        out.bad(f"{fault}:accepted", sub, f"erroneous statement `{stmt_text}` at {fname}:{lineno} was accepted\n{main}")
        return (fname, lineno)
    msg = res.failure_text
    m = re.search(re.escape(shown) + r":(\d+)(?!\d)", msg)
    if not m:
        out.bad(f"{fault}:no-location:{where}", sub, f"error does not name {shown}:<line> for the statement at line {lineno}: {msg[:300]!r}\n--- {fname}\n{text}")
        return (fname, lineno)
    got_line = int(m.group(1))
    if got_line != lineno:
        kind = "off-by" + (str(got_line - lineno) if abs(got_line - lineno) <= 2 else "-many")
        out.bad(f"{fault}:line:{kind}:{where}", sub, f"statement is at {shown}:{lineno} (zero-based) but the error says line {got_line}: {msg[:300]!r}\n--- {fname}\n{text}")
        return (fname, lineno)
    if actual_line not in msg:
        out.bad(f"{fault}:line-text:{where}", sub, f"error does not quote the statement's line {actual_line!r}: {msg[:300]!r}")
    if fault in LEXICAL:
        mc = re.search(re.escape(shown) + r":" + str(lineno) + r":(-?\d+)", msg)
        if not mc:
            out.bad(f"{fault}:no-column:{where}", sub, f"lexical error without a column: {msg[:300]!r}")
        else:
            col = int(mc.group(1))
            ind = actual_line.index(stmt_text)
            if fault in ("bad-suffix", "empty-suffix"):
                allowed = {ind + 3, ind + 4}
            elif fault == "bad-index":
                allowed = {ind + 5, ind + 6}
            elif fault in ("missing-index", "missing-inner-index"):
                # the comma, or anything after it up to the end of this line
                allowed = set(range(ind + len(stmt_text) - 1, len(actual_line) + 1))
            else:
                allowed = {ind + stmt_text.index("'"), len(actual_line), ind + len(stmt_text)}
            if col not in allowed:
                out.bad(f"{fault}:column:{where}", sub, f"column {col} is not one of {sorted(allowed)} for line {actual_line!r}: {msg[:200]!r}")
    return (fname, lineno)


def run_case(case) -> Outcome:
    if case["t"] == "one":
        out = Outcome(evals=0, nontrivial=True, labels=[])
        check_one(out, case, case)
        return out
    out = Outcome(evals=0, nontrivial=0, labels=[f"rom:{case['rom']}"])
    lay = _layout(case["layout_seed"])
    main, files, _ = render.render(case["ir"], lay)
    host = driver.assemble_mem(main, rom=case["rom"], files={**(case.get("files") or {}), **files})
    out.evals += 1
    if not host.accepted:
        out.skip = "host not accepted"
        return out
    out.labels.append("host-valid")
    rng = random.Random(case["pick"])
    pts = insertion_points(case["ir"])
    nt = 0
    seen_inc = False
    for steps, index, certain in pts:
        for fault in list(SEMANTIC) + list(LEXICAL):
            if fault in SEMANTIC and not certain:
                continue
            variants = [False]
            if fault == "unterminated-text":
                variants = [False, True]
            elif fault in SEMANTIC and not steps and index == len(case["ir"]):
                # the erroneous statement is the last one of the main file, which ends right after it (no final newline)
                variants = [False, True]
            for eof in variants:
                sub = {"t": "one", "rom": case["rom"], "ir": case["ir"], "files": case.get("files") or {}, "layout_seed": case["layout_seed"], "fault": fault,
                       "steps": [list(s) for s in steps], "index": index, "indent": rng.choice(["", " ", "    ", "\t", " \t"]),
                       "tail": rng.choice(["", "", " ; trailing", "   "]) if not eof and not fault.startswith("unterminated") else "", "eof": eof,
                       "pad": rng.choice([0] * 30 + [998, 1000, 1234, 2047, 10000]), "incprefix": rng.choice(["", "", "", "./", "../", "abs"]), "decoy": rng.random() < 0.3}
                loc = check_one(out, case, sub)
                if loc is None:
                    continue
                if loc[1] > 0:
                    nt += 1
                if loc[0] != "main.s":
                    seen_inc = True
    out.nontrivial = nt
    if seen_inc:
        out.labels.append("in-included-file")
    out.sample = {"rom": case["rom"], "host": main.splitlines()[:25], "insertion_points": len(pts)}
    return out


ESSENTIAL = {"host-valid": 0.5, "in-included-file": 0.25}
