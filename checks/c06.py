"""C06 — expressions evaluate to their conventional integer value, in every context."""
from __future__ import annotations

import itertools

from hypothesis import strategies as st

from vlib import add_repo_to_path, driver, gen
from vlib.model import expr as X
from vlib.runner import Outcome

add_repo_to_path()

PROPERTY = "C06"
LEVEL = "exploration"
TECHNIQUE = "systematic enumeration of all expression trees with <=3 operator nodes (unary -,~ and the 7 binary operators) + Hypothesis random deep trees with random parenthesisation/spacing/bases, differential against an independent tree evaluator, observed in 8 contexts"
RULE = (
    "trees over {unary -, unary ~, *, +, -, <<, >>, &, |}: every tree shape with <=3 operator nodes (thorough; quick: <=2 plus a seeded third of the "
    "3-node shapes) over a rotating boundary operand pool, plus Hypothesis trees up to 12 leaves with literals in decimal/0x/0X-digits/0b, identifiers bound "
    "to :=, = and labels, redundant parentheses and random spacing.  The tree is evaluated by vlib/model/expr.py and its minimal-parenthesis rendering by a816 in: "
    "eval_expression_str, .dl (72 bits via >>24/>>48), := and = definitions, lda.w #/jmp.l operands, macro argument, .if, .for bound, and inside a macro body whose parameters are the expression's identifiers bound late while the enclosing scope defines the same names with other values (data directive and nested macro argument), and twice around a re-assignment of one of its `:=` symbols.  "
    "Non-trivial = >=2 distinct precedence levels, or a unary operator next to a binary one, or stacked unaries, or a redundant parenthesis; distinct by case hash."
)
LEVEL_TEXT = ("Differential exploration against an independent evaluator: the operator-combination space up to three operators is enumerated systematically, deeper trees are sampled; "
              "each expression is observed through every context that can lex its operators.")
LEVEL_NOTE = ("Trusted: vlib/model/expr.py (self-tested against Python's own evaluator on all operator pairs). `|` and `~` are not lexed by the directive-context scanner, so trees using them are only "
              "observed in operand contexts; shift counts 0..40 in generated trees and up to 4097 in the enumerated wide-shift cases, ~ only on 0..2^32-1, no '/', '%', '^', comparison operators, octal or upper-case 0X/0B prefixes (not in the statement).")
DESIGN_REF = "DESIGN.md §3 C06, §2.2"
ASSUMPTIONS = ["conventional precedence as listed in the property", "spacing = runs of spaces between tokens"]

POOL = [0, 1, 2, 3, 5, 0xF0, 0xFF, 0x100, 0x1234, 0xFFFF, 0x12345]
ENV_KINDS = {"k_a": ":=", "k_b": ":=", "k_c": "=", "lb_a": "label"}


def selftest() -> None:
    X.selftest()


# ----------------------------------------------------------------------------------------------
# systematic trees


def _shapes(n):
    """all operator skeletons with exactly n operator nodes; leaves are None"""
    if n == 0:
        yield None
        return
    for sub in _shapes(n - 1):
        yield ["neg", sub]
        yield ["inv", sub]
    for i in range(n):
        for l in _shapes(i):
            for r in _shapes(n - 1 - i):
                for op in X.BINOPS:
                    yield ["bin", op, l, r]


def _fill(shape, it):
    if shape is None:
        v = next(it)
        return ["lit", v, "x" if v > 9 else "d"]
    if shape[0] in ("neg", "inv"):
        return [shape[0], _fill(shape[1], it)]
    return ["bin", shape[1], _fill(shape[2], it), _fill(shape[3], it)]


def _systematic(tier, seed):
    out = []
    seen = set()
    rotations = (0, 3, 7)
    for n in (1, 2, 3):
        for idx, shape in enumerate(_shapes(n)):
            if tier == "quick" and n == 3 and (idx + seed) % 3 != 0:
                continue
            for rot in rotations if tier == "thorough" or n < 3 else rotations[:1]:
                pool = POOL[rot:] + POOL[:rot]
                tree = _fill(shape, itertools.cycle(pool[1:] if n > 1 else pool))
                tree, _ = gen.repair(tree)
                txt = X.render(tree)
                if txt in seen:
                    continue
                seen.add(txt)
                out.append({"tree": tree, "gaps": None, "env": {}, "org": 0x018123})
    return out


def _unary_runs():
    """long runs of prefix operators in front of one operand while 1..5 binary operators of different levels wait
    (every stacked prefix operator has to be unwound, however many there are)"""
    L = lambda v: ["lit", v, "d"]
    cases = []

    def negs(n, t):
        for _ in range(n):
            t = ["neg", t]
        return t

    for n in (1, 2, 3, 5, 7, 8, 9, 10, 12, 16, 24):
        run = negs(n, L(3))
        cases.append(["bin", "+", ["bin", "*", L(2), run], L(1)])
        cases.append(["bin", "-", ["bin", "-", L(100), ["bin", "*", L(2), negs(n, L(1))]], L(30)])
        cases.append(["bin", "<<", ["bin", "<<", L(1), ["bin", "+", L(2), ["bin", "*", L(3), negs(n, L(1))]]], L(1)])
        cases.append(["bin", "&", ["bin", ">>", ["bin", "+", L(0x4000), ["bin", "*", L(16), negs(n, L(2))]], L(2)], L(0xFFFF)])
        cases.append(["bin", "+", negs(n, ["inv", L(5)]), L(1)])
    return [{"tree": t, "gaps": None, "env": {}, "org": 0x018123} for t in cases]


def _wide_shifts():
    """values are unbounded integers: a left shift by any count, narrowed again by a right shift, loses nothing"""
    L = lambda v, r="d": ["lit", v, r]
    cases = []
    for n in (41, 63, 64, 65, 100, 127, 128, 129, 255, 256, 257, 258, 300, 511, 512, 513, 1000, 1024, 4097):
        for k in (0, 2, 10):
            cases.append(["bin", ">>", ["par", ["bin", "<<", L(1), L(n)]], L(n - k)])
            cases.append(["bin", ">>", ["par", ["bin", "<<", L(0x1234 + k, "x"), L(n)]], L(n)])
            cases.append(["bin", "&", ["par", ["bin", ">>", ["par", ["bin", "<<", ["neg", L(5 + k)], L(n)]], L(n - 3)]], L(0xFFFF, "x")])
        cases.append(["bin", ">>", ["par", ["bin", "<<", ["par", ["bin", "<<", L(3), L(n)]], L(n)]], L(2 * n - 4)])
        cases.append(["bin", ">>", ["par", ["bin", "*", ["par", ["bin", "<<", L(1), L(n)]], ["par", ["bin", "<<", L(1), L(n)]]]], L(2 * n - 9)])
    return [{"tree": t, "gaps": None, "env": {}, "org": 0x018123} for t in cases]


def _inv_of_names():
    """`~` applied to a name (its width is the width of the name's value at that time), alone and inside larger expressions"""
    I = lambda n: ["id", n]
    L = lambda v, r="x": ["lit", v, r]
    trees = [["inv", I("k_a")], ["inv", ["par", I("k_a")]], ["bin", ">>", ["par", ["bin", "&", ["inv", I("k_a")], L(0xFFFF)]], L(8, "d")], ["bin", "+", ["inv", I("k_a")], L(1, "d")],
             ["bin", "&", ["inv", I("k_a")], ["inv", I("k_b")]], ["inv", ["par", ["bin", "+", I("k_a"), I("k_b")]]], ["bin", "-", ["inv", I("k_b")], ["inv", ["inv", I("k_a")]]]]
    out = []
    for t in trees:
        for a, b in ((0x12, 0x1234), (0x1234, 0x12), (0xFF, 0x100), (0x100, 0xFF), (0xFFFF, 0x10000), (0, 0xFFFF), (0x12345, 0)):
            out.append({"tree": t, "gaps": None, "env": {"k_a": a, "k_b": b}, "org": 0x018123})
    return out


def enum_units(tier, seed):
    cases = _systematic(tier, seed) + _unary_runs() + _wide_shifts() + _inv_of_names()
    units = [{"cases": cases[i::32]} for i in range(32)]
    return {"units": units, "exhaustive": tier == "thorough"}


def unit_cases(unit):
    return unit["cases"]


def hyp_examples(tier):
    return 6000 if tier == "quick" else 400000


def _build_case(rng):
    env = {"k_a": rng.choice([0, 1, 5, 0xFF, 0x1234, 0x12345]), "k_b": rng.randint(0, 0x1FFFF),
           "k_c": rng.choice([2, 0x80, 0xFFFF, 0x10000]), "lb_a": rng.choice([0x018123, 0x00FFF0, 0x2F8000])}
    names = rng.choice([None, None, ["k_a", "k_b"], ["k_a", "k_b", "k_c", "lb_a"]])
    dironly = rng.random() < 0.5
    ops = ["*", "+", "-", "<<", ">>", "&"] if dironly else None
    raw = gen.r_expr(rng, names=names, max_leaves=rng.choice([3, 6, 12, 25]), ops=ops, inv=not dironly)
    tree, _ = gen.repair(raw, env)
    gaps = None if rng.random() < 0.4 else [rng.choice(["", "", " ", " ", "  ", "   "]) for _ in range(rng.randint(0, 60))]
    return {"tree": tree, "gaps": gaps, "env": {k: v for k, v in env.items() if k in set(X.idents(tree))} if names else {},
            "org": env["lb_a"]}


def strategy(tier):
    return gen.seeded(_build_case)


# ----------------------------------------------------------------------------------------------


def _le(v: int, n: int) -> bytes:
    return (v & ((1 << (8 * n)) - 1)).to_bytes(n, "little")


def _flat(res) -> bytes:
    return b"".join(d for _, d in res["blocks"])


def _opsig(tree) -> str:
    ops = sorted(set(X.operators(gen.strip_pars(tree))))
    return "+".join(ops) if len(ops) <= 2 else "multi"


def run_case(case) -> Outcome:
    tree = case["tree"]
    env = dict(case.get("env") or {})
    try:
        value = X.evaluate(tree, env)
    except X.Undefined as e:
        return Outcome(skip=f"undefined tree: {e}")
    gaps = case.get("gaps")
    text = X.render(tree, gen.make_gap(gaps) if gaps is not None else None)
    ops = set(X.operators(tree))
    directive_ok = not (ops & {"|", "u~"})
    ids = set(X.idents(tree))
    eager_ok = all(ENV_KINDS[i] == ":=" for i in ids)
    labels = []
    nt = X.nontrivial(tree) or (gaps is not None and text != X.render(tree))
    out = Outcome(evals=0, nontrivial=nt, labels=labels)
    opsig = _opsig(tree)
    org = case.get("org", 0x018123)
    prelude = f"*=0x{org:06x}\nlb_a:\n"
    for name, v in sorted(env.items()):
        if name == "lb_a":
            continue
        prelude += f"{name} {ENV_KINDS[name]} 0x{v:x}\n"
    if "lb_a" in ids and env.get("lb_a") != org:
        return Outcome(skip="label env mismatch")

    def fail(ctx, kind, detail):
        out.bad(f"{ctx}:{kind}:{opsig}", case, f"expression `{text}` (conventional value {value}) in context {ctx}: {detail}")

    def crash_sig(res):
        return f"{res['exc']}@{res['frame']}" if res["status"] == "exc" else "error-string"

    # A: eval_expression_str (operand-context lexer, full integer)
    from a816.parse.ast.expression import eval_expression_str
    from a816.symbols import Resolver

    try:
        with driver.quiet():
            r = Resolver()
            for name, v in env.items():
                r.current_scope.add_symbol(name, v)
            got = eval_expression_str(text, r)
        if got != value:
            fail("eval_expression_str", "value", f"got {got}")
    except Exception as e:
        out.bad(f"eval_expression_str:raised:{type(e).__name__}@{driver.innermost_frame(e)}", case,
                f"eval_expression_str({text!r}) raised {type(e).__name__}: {e} (conventional value {value})")
    out.evals += 1
    labels.append("ctx:evalstr")

    def asm(ctx, body, expect: bytes):
        res = driver.assemble_mem(prelude + body)
        out.evals += 1
        labels.append("ctx:" + ctx)
        if not res.accepted:
            out.bad(f"{ctx}:rejected:{crash_sig(res)}", case,
                    f"expression `{text}` (value {value}) in context {ctx} rejected: {res['status']} {res['exc']} {res.failure_text[:200]}")
            return
        got = _flat(res)
        if got != expect:
            fail(ctx, "value", f"emitted {got.hex()} expected {expect.hex()}")

    if directive_ok:
        asm("dl", f".dl {text}\n.dl ({text})>>24\n.dl ({text})>>48\n", _le(value, 3) + _le(value >> 24, 3) + _le(value >> 48, 3))
        asm("assign", f"k_z := {text}\n.dl k_z, k_z>>24\n", _le(value, 3) + _le(value >> 24, 3)) if eager_ok else None
        asm("equals", f"k_y = {text}\n.dl k_y, k_y>>24\n", _le(value, 3) + _le(value >> 24, 3))
        asm("macroarg", f".macro m_q(p_a) {{\n.dl p_a, p_a>>24\n}}\nm_q({text})\n", _le(value, 3) + _le(value >> 24, 3))
        if eager_ok:
            asm("if", f".if {text} {{\n.db 1\n}} else {{\n.db 0\n}}\n", b"\x01" if value != 0 else b"\x00")
            if 0 <= value <= 8:
                asm("for", f".for i_v := 0, {text} {{\n.db i_v + 0x10\n}}\n.db 0xEE\n", bytes(0x10 + i for i in range(value)) + b"\xee")
        if ids and "lb_a" not in ids:
            # identifiers that are macro parameters bound late (`=` symbols, whose values are not known while the macro is expanded), while the enclosing scope defines
            # the same names with other values: the text means the same in a data directive and as a nested argument
            names = sorted(ids)
            decoys = "".join(f"{n} := 0x{env[n] + 1 + i:x}\n" for i, n in enumerate(names))
            body = (f"*=0x{org:06x}\n" + decoys + ".macro m_in(p_v) {\n.dl p_v, p_v>>24\n}\n.macro m_e(" + ", ".join(names) + f") {{\n.dl {text}\nm_in({text})\n}}\n"
                    + "".join(f"k_fw_{n} = 0x{env[n]:x}\n" for n in names) + "m_e(" + ", ".join(f"k_fw_{n}" for n in names) + ")\n")
            res = driver.assemble_mem(body)
            out.evals += 1
            labels.append("ctx:late-params")
            if not res.accepted:
                out.bad(f"late-params:rejected:{crash_sig(res)}", case, f"expression `{text}` over late-bound macro parameters rejected: {res['status']} {res['exc']} {res.failure_text[:200]}\n{body}")
            elif _flat(res) != _le(value, 3) + _le(value, 3) + _le(value >> 24, 3):
                fail("late-params", "value", f"emitted {_flat(res).hex()} expected {(_le(value, 3) + _le(value, 3) + _le(value >> 24, 3)).hex()}\n{body}")
    if directive_ok and ids and "lb_a" not in ids:
        # scopes that define the expression's names with other values (a block, a loop whose variable has one of the names, a macro
        # whose parameter has) have been closed before the expression is written: it means what it means at the top level again
        names = sorted(ids)
        inner = "".join(f"{n} := 0x{env[n] + 5 + i:x}\n" for i, n in enumerate(names))
        shadows = ("{\n" + inner + ".db 0x11\n}\n" + f".for {names[0]} := 3, 5 {{\n.db 0x22\n}}\n" +
                   ".macro m_sh(" + ", ".join(names) + ") {\n.db 0x33\n}\nm_sh(" + ", ".join(str(7 + i) for i in range(len(names))) + ")\n")
        asm("after-closed-scopes", shadows + f".dl {text}\n.dl ({text})>>24\n", b"\x11\x22\x22\x33" + _le(value, 3) + _le(value >> 24, 3))
    if ids and "lb_a" not in ids:
        # ONE written expression evaluated several times with other values of its names (a macro body applied three times, a loop
        # body): each evaluation has the conventional value for the values of that time -- nothing (a width, a sub-result) is
        # carried over from an earlier evaluation of the same text
        names = sorted(ids)
        envs = [env]
        for mul, add in ((0x101, 0x100), (0, 1), (0x10001, 0x12345)):
            e2 = dict(env)
            for n in names:
                e2[n] = (env[n] * mul + add) & 0xFFFFFF
            envs.append(e2)
        vals = []
        for e2 in envs:
            try:
                vals.append(X.evaluate(tree, e2))
            except X.Undefined:
                vals = None
                break
        if vals is not None:
            calls = "".join("m_rep(" + ", ".join(f"0x{e2[n]:x}" for n in names) + ")\n" for e2 in envs)
            if directive_ok:
                asm("repeated", ".macro m_rep(" + ", ".join(names) + f") {{\n.dl {text}\n.dl ({text})>>24\n}}\n" + calls, b"".join(_le(v, 3) + _le(v >> 24, 3) for v in vals))
            else:
                asm("repeated", ".macro m_rep(" + ", ".join(names) + f") {{\nlda.w #{text}\n}}\n" + calls, b"".join(b"\xa9" + _le(v, 2) for v in vals))
    if directive_ok and eager_ok and ids and "lb_a" not in ids:
        # a := symbol of the expression is assigned again between two uses of the same text (a running counter): what is
        # evaluated while the program is expanded (macro arguments, := definitions) sees the value at that point
        n0 = sorted(ids)[0]
        env2 = dict(env)
        env2[n0] = env[n0] + 3
        try:
            value2 = X.evaluate(tree, env2)
        except X.Undefined:
            value2 = None
        if value2 is not None:
            asm("reassigned", f".macro m_q(p_a) {{\n.dl p_a, p_a>>24\n}}\nm_q({text})\n{n0} := 0x{env2[n0]:x}\nm_q({text})\nk_z := {text}\n.dl k_z\n",
                _le(value, 3) + _le(value >> 24, 3) + _le(value2, 3) + _le(value2 >> 24, 3) + _le(value2, 3))
    asm("imm", f"lda.w #{text}\n", b"\xa9" + _le(value, 2))
    if tree[0] != "par":
        asm("operand", f"jmp.l {text}\n", b"\x5c" + _le(value, 3)) if 0 <= value < 1 << 24 else asm("operand", f"lda.w {text}\n", b"\xad" + _le(value, 2))
    if not directive_ok:
        labels.append("operand-only-operators")
    if gaps is not None:
        labels.append("spacing")
    if "()" in ops:
        labels.append("redundant-parens")
    if ids:
        labels.append("identifiers")
    out.sample = {"text": text, "value": value, "env": env}
    return out


ESSENTIAL = {}
