"""C16 — output does not depend on how the source text is laid out (metamorphic)."""
from __future__ import annotations

import os
import random
import re

from vlib import REPO_ROOT, add_repo_to_path, driver, gen, progen, render
from vlib.runner import Outcome

add_repo_to_path()

PROPERTY = "C16"
LEVEL = "exploration"
TECHNIQUE = "metamorphic: Hypothesis-seeded generated programs (and the repository's sample sources) rendered canonically and under random compositions of the listed presentation changes, applied at every applicable position; outputs and symbol values compared"
RULE = (
    "each generated program (C03 profile incl. `.text` with ASCII and non-ASCII table entries + unsized literal operands + every addressing shape) is rendered canonically and under 8 (quick) / 32 (thorough) random layouts composed from: blank / whitespace-only lines; "
    "indentation by spaces and tabs; trailing spaces; full-line ';' comments; end-of-line ';' comments after >=1 space; single- and multi-line '/* */' comments on their own lines; 0-3 spaces around binary "
    "operators, after unary operators, around ',' in lists and before index registers, after '#', inside brackets next to the operand, around = := *= @=; letter case of mnemonics, size suffixes, index "
    "registers (inside and outside brackets) and hexadecimal digits; moving runs of complete statements into .include files (nested up to 2).  tests/samples/*.s get the line-level subset.  Oracle: identical "
    "writer blocks and identical get_all_labels() between canonical and each re-layout (both accepted).  Non-trivial = the rendering differs from canonical in >=2 transformation classes; distinct by (case, layout seed) hash."
)
LEVEL_TEXT = "Metamorphic exploration: no expected bytes are needed, only equality between a program and its re-layouts; per-class usage of every listed transformation is measured."
LEVEL_NOTE = ("Trusted: vlib/render.py emits the same IR in both layouts. Deliberately not generated (not in the statement, not accepted by the scanner): tabs between mnemonic and operand, ';' glued to a naked mnemonic, '/* */' on an instruction line, "
              "a blank between an inner index and its closing bracket, upper-case 0X/0B prefixes, comments between '}' and 'else', several statements on one line.")
DESIGN_REF = "DESIGN.md §3 C16"
ASSUMPTIONS = ["canonical rendering is accepted whenever any re-layout is expected to be"]

PROFILE = progen.Profile(max_stmts=12, incbin=True, big_incbin=False, text=True)
N_LAYOUTS = {"quick": 8, "thorough": 32}


def selftest() -> None:
    r = random.Random(1)
    ir = [{"k": "org", "a": 0x8000}, {"k": "ins", "m": "lda", "shape": ["(", "s", "y"], "sfx": "b", "e": ["bin", "+", ["lit", 1, "x"], ["lit", 2, "d"]]}]
    a, _, _ = render.render(ir)
    assert a == "*=0x008000\nlda.b (0x1 + 2,s),y\n", a
    lay = render.Layout(r)
    b, _, _ = render.render(ir, lay)
    assert "lda" in b.lower() and b != "" and lay.used is not None


def _build(rng):
    case = progen.generate(rng, PROFILE)
    case["layout_seeds"] = [rng.randint(0, 1 << 30) for _ in range(32)]
    return case


def strategy(tier):
    return gen.seeded(_build)


def hyp_examples(tier):
    return 1500 if tier == "quick" else 8000


def enum_units(tier, seed):
    units = []
    sdir = os.path.join(REPO_ROOT, "tests", "samples")
    if os.path.isdir(sdir):
        for fn in sorted(os.listdir(sdir)):
            if fn.endswith(".s"):
                units.append({"t": "sample", "file": fn, "seeds": [seed * 100 + i for i in range(16 if tier == "quick" else 200)], "tier": tier})
    for n, pad in ((4000, 0), (300, 4), (9000, 0)):
        units.append({"t": "longinc", "n": n, "pad": pad})
    return {"units": units, "exhaustive": False}


def unit_cases(unit):
    if unit.get("t") == "longinc":
        yield unit
        return
    with open(os.path.join(REPO_ROOT, "tests", "samples", unit["file"]), encoding="utf-8") as f:
        text = f.read()
    for s in unit["seeds"]:
        yield {"t": "sample", "file": unit["file"], "text": text, "seed": s}


PRELUDE = "source := 0x7E2000\nvramptr := 0x4000\ncount := 0x80\nmode := 1\ndma_transfer_to_vram := 0x008123\nvwf_shift_table := 0x028456\n*=0x018000\n"
_MNEMONIC = re.compile(r"^(\s*)([A-Za-z]{3})(\.[bwlBWL])?(\s|$)")


def relayout_text(text: str, rng) -> tuple[str, dict]:
    """line-level transformations of a source that is not available as IR"""
    used = {}
    out = []

    def use(k):
        used[k] = used.get(k, 0) + 1

    for ln in text.split("\n"):
        if rng.random() < 0.2:
            out.append(rng.choice(["", "   ", "\t"])); use("blank")
        if rng.random() < 0.15:
            out.append(rng.choice(["", "  "]) + "; " + rng.choice(render.COMMENT_WORDS)); use("linecomment")
        if rng.random() < 0.1:
            out.append("/* " + rng.choice(render.COMMENT_WORDS).replace("*/", "") + (" */" if rng.random() < 0.5 else "\n more */")); use("blockcomment")
        m = _MNEMONIC.match(ln)
        if m and ln.strip() and ";" not in ln.split()[0]:
            if rng.random() < 0.5:
                mn = m.group(2)
                new = mn.upper() if rng.random() < 0.5 else mn.lower()
                sfx = m.group(3) or ""
                if sfx and rng.random() < 0.5:
                    sfx = sfx.upper() if rng.random() < 0.5 else sfx.lower()
                if new != mn or sfx != (m.group(3) or ""):
                    use("case_mnemonic")
                ln = m.group(1) + new + sfx + m.group(4) + ln[m.end():]
        if ln.strip():
            if rng.random() < 0.4:
                ln = rng.choice(["", " ", "\t", "      "]) + ln.lstrip(" \t"); use("indent")
            if ";" not in ln and rng.random() < 0.2:
                ln = ln.rstrip() + rng.choice(["  ", " "]) + "; " + rng.choice(["note", "x=1", "'q'"]); use("eolcomment")
            elif rng.random() < 0.2:
                ln = ln + rng.choice([" ", "   "]); use("trailing")
        out.append(ln)
    return "\n".join(out), used


def _same(a, b):
    return a["blocks"] == b["blocks"] and sorted(a["labels"]) == sorted(b["labels"])


def run_case(case) -> Outcome:
    if case.get("t") == "longinc":
        # a run of statements moved into an included file of more than 64 KiB / 128 KiB (many statements, or few statements
        # and a lot of comment / blank-line padding)
        n, pad = case["n"], case["pad"]
        body = "".join(f"lb_i{i}:\n.dw lb_i{i} & 0xffff\n" + ("; " + "x" * 60 + "\n\n") * pad for i in range(n))
        inline = "*=0x018000\n.db 1\n" + body + "lb_after:\n.dl lb_after\n"
        moved = "*=0x018000\n.db 1\n.include 'big.s'\nlb_after:\n.dl lb_after\n"
        a = driver.assemble_mem(inline)
        b = driver.assemble_mem(moved, files={"big.s": body})
        out = Outcome(evals=2, nontrivial=True, labels=["long-include"])
        out.sample = {"statements": 2 * n, "include_characters": len(body)}
        if not a.accepted:
            out.skip = "inline version rejected"
        elif not b.accepted:
            out.bad("long-include:rejected", case, f"the version with the run in an included file of {len(body)} characters is rejected: {b['exc']} {b.failure_text[:200]}")
        elif driver.flatten(a["blocks"]) != driver.flatten(b["blocks"]) or sorted(a["labels"]) != sorted(b["labels"]):
            out.bad("long-include:differs", case, f"moving {2 * n} statements into an included file of {len(body)} characters changes the result: "
                    f"{sum(len(d) for _, d in a['blocks'])} bytes / {len(a['labels'])} labels inline, {sum(len(d) for _, d in b['blocks'])} bytes / {len(b['labels'])} labels included")
        return out
    if case.get("t") == "sample":
        rng = random.Random(case["seed"])
        base_src = PRELUDE + case["text"]
        base = driver.assemble_mem(base_src)
        out = Outcome(evals=1, labels=["sample:" + case["file"]])
        if not base.accepted:
            out.skip = f"sample {case['file']} is not accepted with the prelude: {base['exc']} {base.failure_text[:80]}"
            return out
        txt, used = relayout_text(case["text"], rng)
        res = driver.assemble_mem(PRELUDE + txt)
        out.evals += 1
        out.nontrivial = len(used) >= 2
        out.labels += ["lay:" + k for k in used]
        out.sample = {"sample": case["file"], "relayout": txt.splitlines()[:12], "classes": used}
        if not res.accepted:
            out.bad("sample:relayout-rejected:" + "+".join(sorted(used))[:60], case, f"re-laid-out sample rejected: {res['exc']} {res.failure_text[:200]}\n{txt}")
        elif not _same(base, res):
            out.bad("sample:output-changed", case, f"output changed by re-layout: {driver.blocks_json(base['blocks'], 24)} vs {driver.blocks_json(res['blocks'], 24)}\n{txt}")
        return out
    ir, rom, files = case["ir"], case["rom"], case.get("files") or {}
    src, inc, _ = render.render(ir)
    base = driver.assemble_mem(src, rom=rom, files={**files, **inc})
    out = Outcome(evals=1, labels=[f"rom:{rom}"])
    if not base.accepted:
        out.skip = "canonical rendering rejected (outside the valid-program domain)"
        return out
    n = int(os.environ.get("VERIF_C16_LAYOUTS", "0")) or N_LAYOUTS.get(os.environ.get("VERIF_TIER_EFFECTIVE", "quick"), 8)
    classes_all = {}
    out.nontrivial = 0
    for ls in case["layout_seeds"][:n]:
        lay = render.Layout(random.Random(ls))
        lsrc, linc, _ = render.render(ir, lay)
        fn, decoys = "main.s", {}
        if ls % 4 == 0:
            # the main source is known under a name with a directory part, and files with the names of the included / read
            # files exist in that directory too (other content): paths are relative to the working directory
            fn = "proj/src/main.s"
            decoys = {"proj/src/" + k: (".db 0xde, 0xad\n" if k.endswith(".s") else {"hex": "deadbeef99"}) for k in list(files) + list(linc)}
            out.labels.append("source-in-subdirectory")
        res = driver.assemble_mem(lsrc, rom=rom, files={**files, **linc, **decoys}, filename=fn)
        out.evals += 1
        for k in lay.used:
            classes_all[k] = classes_all.get(k, 0) + 1
        if len(lay.used) >= 2:
            out.nontrivial += 1
        sub = dict(case, layout_seeds=[ls])
        if not res.accepted:
            out.bad(f"relayout-rejected:{res['exc'] or 'error'}@{res['frame']}", sub,
                    f"canonical layout assembles, this re-layout is rejected: {res['status']} {res['exc']} {res.failure_text[:300]}\n--- canonical\n{src}\n--- re-layout (classes {sorted(lay.used)})\n{lsrc}"
                    + "".join(f"\n--- {k}\n{v}" for k, v in linc.items()))
        elif not _same(base, res):
            what = "bytes" if base["blocks"] != res["blocks"] else "labels"
            out.bad(f"relayout-changed-{what}", sub,
                    f"re-layout changed the {what}: {driver.blocks_json(base['blocks'], 24)} vs {driver.blocks_json(res['blocks'], 24)}\n--- canonical\n{src}\n--- re-layout (classes {sorted(lay.used)})\n{lsrc}"
                    + "".join(f"\n--- {k}\n{v}" for k, v in linc.items()))
    out.labels += ["lay:" + k for k in classes_all]
    out.sample = {"rom": rom, "canonical": src.splitlines()[:12], "one_relayout": lsrc.splitlines()[:16], "classes_used": classes_all}
    return out


ESSENTIAL = {"lay:" + k: 0.05 for k in render.KNOBS}
