"""C12 — file and command-line front ends agree with the in-memory assembler."""
from __future__ import annotations

import collections
import random
import re

from vlib import add_repo_to_path, driver, gen, progen, render
from vlib.model import ips as IPS
from vlib.model import refasm
from vlib.runner import Outcome
from checks.c03 import model_files

add_repo_to_path()

PROPERTY = "C12"
LEVEL = "exploration"
TECHNIQUE = "every point of the option lattice (format x mapping x copier-header x -D defines) visited for Hypothesis-seeded generated programs valid under the chosen mapping, through Program.assemble, Program.assemble_as_patch, the in-process CLI and real `python -m a816.cli` subprocesses; differential against the in-memory API (itself cross-checked against the reference assembler) with an independent IPS reader"
RULE = (
    "programs generated for one mapping (low 00-6F/80-CF, low2 80-FF, high 40-7D/C0-FF; addresses drawn from that mapping) that use 0-3 -D names in data, sized operands and conditions, run through every "
    "(format in {ips,sfc}) x (copier header off/on) point, under a varying environment (LF / CR LF / CR source files, main source in a sub-directory with decoy files beside it, an existing longer output file, --dump-symbols / --verbose), and every entry point (assemble, assemble_as_patch, in-process cli_main; real subprocess for 1 program in 10).  Oracle: reference = in-memory API with the same rom type "
    "and the defines as integer symbols, required to equal vlib/model/refasm.py under the textbook bus; IPS output parsed by vlib/model/ips.py == reference blocks (+0x200 with the copier header); SFC bytes == reference image on zeros; "
    "exit status / return value 0; the exported symbol file lists each label defined outside loop iterations exactly once as bank:offset name and no entry under a name that is not a label of the program.  Non-trivial = a lattice point other than (ips, low, off, no defines) on a program with >=2 blocks; "
    "distinct = distinct (program, lattice point, entry) tuples."
)
LEVEL_TEXT = "Differential exploration over the full option lattice and all entry points; two failures agreeing is not agreement (the reference must match the independent model first)."
LEVEL_NOTE = "Trusted: vlib/model/refasm.py, busmodel.py (incl. the low2 variant), ips.py. -D is given after the positional argument (argparse nargs='+'). sfc x copier-header is not asserted (the statement only speaks of IPS offsets). Labels defined inside loop iterations may or may not be listed."
DESIGN_REF = "DESIGN.md §3 C12"
ASSUMPTIONS = ["symbol file format: '[labels]' then one 'bank:offset name' line per label, hexadecimal, padding tolerated"]

SHARD_MIN = 4


def selftest() -> None:
    IPS.selftest()
    refasm.selftest()


def _build(rng):
    rom = rng.choice(["low", "low2", "high"])
    nd = rng.choice([0, 1, 2, 3])
    defines = {}
    for i in range(nd):
        defines[f"d_{'abc'[i]}"] = rng.choice([0, 1, 5, 0x10, 0x1F, 0xFF, 0xAB, 0x1234, 0x12AB, 0xC0DE, 0x12345, 0xFEDCBA])
    prof = progen.Profile(max_stmts=12, reloc_ram=False, big_incbin=rng.random() < 0.25, defines=defines, org_weight=8, includes=rng.random() < 0.4)
    case = progen.generate(rng, prof, rom=rom)
    case["defines"] = defines
    case["define_forms"] = [rng.choice(["d", "x", "X", "b", "d", "x", "z", "zx"]) for _ in defines]  # decimal, 0x lower / UPPER-case digits, 0b, zero-padded
    case["sub"] = rng.random() < 0.1
    if defines and rng.random() < 0.5:
        # an inner scope (block, named scope, macro body, loop body) defines a name of its own that coincides with a -D name:
        # inside, the inner definition is the one that counts; the -D value stays what the rest of the program sees
        bodies = []

        def collect(stmts):
            for st in stmts:
                if st["k"] in ("block", "scope", "macro", "for"):
                    bodies.append(st["b"])
                for key in (("t", "e") if st["k"] == "if" else ("b",) if st["k"] in ("block", "scope", "macro", "for", "include") else ()):
                    if isinstance(st.get(key), list):
                        collect(st[key])
                for a in st.get("args") or []:
                    if isinstance(a, dict) and isinstance(a.get("code"), list):
                        collect(a["code"])

        collect(case["ir"])
        if bodies:
            body = rng.choice(bodies)
            name = rng.choice(sorted(defines))
            v = rng.choice([0, 3, 0x77, 0x4321, 0x654321])
            body[:0] = [{"k": "const", "n": name, "e": ["lit", v, "x"], "eager": rng.random() < 0.6}, {"k": "data", "d": "dl", "es": [["id", name]]}]
            case["shadowed_define"] = name
    return case


def strategy(tier):
    return gen.seeded(_build)


def hyp_examples(tier):
    return 300 if tier == "quick" else 5000


def enum_units(tier, seed):
    L = lambda v: ["lit", v, "x"]
    cases = []
    for rom, org in (("low", 0x018000), ("low2", 0x818000), ("high", 0xC18000)):
        cases.append({"rom": rom, "files": {}, "defines": {"d_a": 5}, "define_forms": ["d"], "sub": True,
                      "ir": [{"k": "org", "a": org}, {"k": "label", "n": "lb_1"}, {"k": "data", "d": "dl", "es": [["id", "lb_1"], ["id", "d_a"]]},
                             {"k": "org", "a": org + 0x20000}, {"k": "ins", "m": "lda", "shape": ["#", None, None], "sfx": "w", "e": ["bin", "+", ["id", "d_a"], L(1)]}]})
    # a source file of more than 64 KiB / 128 KiB (3000 and 6000 statements, labels spread over it, a second block at the end)
    for rom, org, n in (("low", 0x018000, 3000), ("high", 0xC18000, 6000)):
        ir = [{"k": "org", "a": org}]
        for i in range(n):
            if i % 500 == 0:
                ir.append({"k": "label", "n": f"lb_big_{i}"})
            ir.append({"k": "data", "d": "dl", "es": [L(0x100000 + i), ["id", f"lb_big_{(i // 500) * 500}"]]})
        ir += [{"k": "org", "a": org + 0x100000}, {"k": "label", "n": "lb_tail"}, {"k": "data", "d": "dl", "es": [["id", "lb_tail"], ["id", "lb_big_0"]]}]
        cases.append({"rom": rom, "files": {}, "defines": {}, "define_forms": [], "sub": rom == "low", "ir": ir})
    # labels in unusual places: a named scope written in two pieces (and the same scope name again inside a block and inside a macro
    # applied twice), a label with the name of a scope, labels in a taken and in an untaken branch, in an included file
    lab = lambda n: {"k": "label", "n": n}
    db = lambda v: {"k": "data", "d": "db", "es": [L(v)]}
    for rom, org in (("low", 0x018000), ("high", 0xC18000)):
        ir = [{"k": "org", "a": org}, {"k": "scope", "n": "sc_t", "b": [lab("lb_init"), db(1)]}, lab("lb_mid"), db(2),
              {"k": "scope", "n": "sc_t", "b": [db(3), lab("lb_more"), db(4)]}, {"k": "data", "d": "dl", "es": [["id", "sc_t.lb_init"], ["id", "sc_t.lb_more"]]},
              {"k": "block", "b": [{"k": "scope", "n": "sc_t", "b": [lab("lb_in_block"), db(5)]}, {"k": "scope", "n": "sc_t", "b": [lab("lb_in_block2"), db(6)]}]},
              {"k": "macro", "n": "m_s", "ps": ["p_sx"], "b": [{"k": "scope", "n": "sc_m", "b": [lab("lb_in_macro"), {"k": "data", "d": "db", "es": [["id", "p_sx"]]}]}]},
              {"k": "call", "n": "m_s", "args": [L(7)]}, {"k": "call", "n": "m_s", "args": [L(8)]},
              {"k": "if", "c": L(1), "t": [lab("lb_taken"), db(9)], "e": [lab("lb_not_taken"), db(10)]},
              {"k": "include", "f": "part1.s", "b": [lab("lb_inc"), db(11), {"k": "scope", "n": "sc_t", "b": [lab("lb_inc_scope"), db(12)]}]},
              {"k": "org", "a": org + 0x10000}, lab("sc_m"), db(13), lab("_lb_under"), db(14), {"k": "block", "b": [lab("__lb_two"), db(15)]}, lab("lb_trailing_"), db(16)]
        cases.append({"rom": rom, "files": {}, "defines": {}, "define_forms": [], "sub": rom == "low", "ir": ir})
    # code before any *= (the program starts where the assembler starts): whatever the in-memory API makes of it, the files say the same
    for rom in ("low", "low2", "high"):
        ir = [lab("lb_entry"), db(1), {"k": "data", "d": "dl", "es": [["id", "lb_entry"]]}, lab("lb_next"), {"k": "data", "d": "dw", "es": [["id", "lb_next"]]},
              {"k": "org", "a": {"low": 0x018000, "low2": 0x818000, "high": 0xC18000}[rom]}, lab("lb_far"), {"k": "data", "d": "dl", "es": [["id", "lb_far"], ["id", "lb_entry"]]}]
        cases.append({"rom": rom, "files": {}, "defines": {}, "define_forms": [], "sub": rom == "high", "ir": ir, "no_model": True})
    return {"units": [{"cases": [c]} for c in cases], "exhaustive": False}


def unit_cases(unit):
    return unit["cases"]


_SYM = re.compile(r"^\s*([0-9a-fA-F]+)\s*:\s*([0-9a-fA-F]+)\s+(\S+)\s*$")


def parse_symfile(text):
    lines = text.splitlines()
    if not lines or lines[0].strip() != "[labels]":
        return None
    out = []
    for ln in lines[1:]:
        if not ln.strip():
            continue
        m = _SYM.match(ln)
        if not m:
            return None
        out.append((m.group(3), (int(m.group(1), 16) << 16) | int(m.group(2), 16)))
    return out


def run_case(case) -> Outcome:
    rom, ir, files, defines = case["rom"], case["ir"], case.get("files") or {}, case.get("defines") or {}
    out = Outcome(evals=0, nontrivial=0, labels=[f"map:{rom}", f"defines:{len(defines)}"] + (["define-shadowed-inside"] if case.get("shadowed_define") else []))
    lseed = case.get("join_seed")
    lay = render.Layout(random.Random(lseed), knobs=[k for k in render.KNOBS if k != "include"] + ["join"]) if lseed is not None and lseed % 3 == 0 else None
    src, inc, _ = render.render(ir, lay)  # a third of the sources in a random layout: the front ends read them from a file
    allfiles = {**files, **inc}
    ref = driver.assemble_mem(src, rom=rom, files=allfiles, defines=defines)
    model = refasm.assemble(ir, rom=rom, files=model_files(files), defines=defines)
    out.evals += 1
    out.sample = {"rom": rom, "defines": defines, "source": src.splitlines()[:16], "model": model.status}
    if case.get("no_model") and ref.accepted:
        # a program the reference assembler says nothing about (code before any *=): the front ends are only compared with the
        # in-memory API, whatever that does
        import types

        model = types.SimpleNamespace(status="ok", cause="", writes=driver.flatten(ref["blocks"]), blocks=ref["blocks"], labels=list(ref["labels"]),
                                      labels_outside_loops=list(ref["labels"]), names_under_loops=set())
        out.labels.append("no-leading-position")
    if model.status == "unspecified":
        out.skip = "unspecified: " + model.cause.split("(")[0].strip()
        return out
    if model.status == "reject":
        if ref.accepted:
            out.bad("reference-accepts-invalid", case, f"model rejects ({model.cause}) but the in-memory API accepted\n{src}")
        out.skip = "program rejected by model and reference"
        return out
    if not ref.accepted:
        return out.bad(f"reference-rejected:{rom}:{ref['exc'] or 'error'}@{ref['frame']}", case,
                       f"in-memory API under mapping {rom} with defines {defines}: {ref['status']} {ref['exc']} {ref.failure_text[:200]}\n{src}")
    if collections.Counter(driver.flatten(ref["blocks"])) != collections.Counter(model.writes):
        return out.bad(f"reference-differs-from-model:{rom}", case, f"in-memory result under {rom} differs from the reference model: {driver.blocks_json(ref['blocks'], 24)} vs {driver.blocks_json(model.blocks, 24)}\n{src}")
    want_runs = IPS.normalise(ref["blocks"])
    img = driver.image(ref["blocks"])
    nblocks = len(ref["blocks"])
    dargs = []
    if defines:
        fmt_ = {"d": lambda v: str(v), "x": lambda v: f"0x{v:x}", "X": lambda v: f"0x{v:X}", "b": lambda v: f"0b{v:b}",
                "z": lambda v: f"{v:08d}", "zx": lambda v: f"0x{v:08x}"}
        dargs = ["-D"] + [f"{k}={fmt_[f](v)}" for (k, v), f in zip(defines.items(), case.get("define_forms") or ["d"] * len(defines))]

    def check_ips(tag, blob, copier, sub):
        try:
            got = IPS.normalise([(o, d) for o, d, _ in IPS.parse(blob)])
        except IPS.IpsError as e:
            out.bad(f"{tag}:unreadable-ips", sub, f"{tag}: output is not a well formed IPS file: {e}\n{src}")
            return
        want = IPS.normalise([(o + (0x200 if copier else 0), d) for o, d in ref["blocks"]])
        if got != want:
            out.bad(f"{tag}:ips-effect", sub, f"{tag} (copier={copier}): patch effect {[(hex(o), len(d)) for o, d in got][:6]} expected {[(hex(o), len(d)) for o, d in want][:6]}\n{src}")

    def check_sfc(tag, blob, sub):
        exp_len = (max(img) + 1) if img else 0
        bad = None
        if len(blob) != exp_len:
            bad = f"length {len(blob)} expected {exp_len}"
        else:
            for o, b in img.items():
                if blob[o] != b:
                    bad = f"byte at {o:#x} is {blob[o]:#x} expected {b:#x}"
                    break
            else:
                if sum(1 for x in blob if x) != sum(1 for b in img.values() if b):
                    bad = "non-zero bytes outside the written blocks"
        if bad:
            out.bad(f"{tag}:sfc-image", sub, f"{tag}: flat image differs from the in-memory result applied to an empty image: {bad}\n{src}")

    points = [(fmt, cop) for fmt in ("ips", "sfc") for cop in (False, True)]
    nt = 0
    # the environment of the file front ends varies too (the in-memory reference never sees it): line ends of the source
    # files, the main source in a sub-directory with decoy files of the same names beside it, an output file that already
    # exists and is longer than the new output, the symbol dump / verbose options
    erng = random.Random((case.get("join_seed") or 0) * 31 + len(src))

    def environment():
        k = erng.random()
        if k < 0.4:
            return {}
        return {"newline": erng.choice(["lf", "lf", "crlf", "cr"]), "subdir": erng.random() < 0.4,
                "preexisting": erng.choice([0, 0, 7, 5000, 300000]), "dump": erng.random() < 0.3, "verbose": erng.random() < 0.2}

    for fmt, cop in points:
        sub = dict(case, only=[fmt, cop])
        if case.get("only") and case["only"] != [fmt, cop]:
            continue
        nontrivial_point = not (fmt == "ips" and rom == "low" and not cop and not defines) and nblocks >= 2
        # ---- file APIs
        if not (fmt == "sfc" and cop):
            fenv = environment()
            if any(fenv.values()):
                out.labels.append("environment-varied")
            r = driver.assemble_file_api(src, fmt=fmt, mapping=rom, copier=cop, files=allfiles, defines=defines, symfile=True, env=fenv)
            sub = dict(sub, env=fenv)
            out.evals += 1
            nt += nontrivial_point
            tag = f"api-{'assemble' if fmt == 'sfc' else 'assemble_as_patch'}"
            if r["status"] == "exc" or r["rc"] != 0:
                out.bad(f"{tag}:failed:{rom}", sub, f"{tag}(mapping={rom}, copier={cop}) failed: rc={r['rc']} {r['exc']} {r['msg'][:200]}\n{src}")
            elif r["output"] is None:
                out.bad(f"{tag}:no-output", sub, f"{tag} wrote no file")
            else:
                check_ips(tag, r["output"], cop, sub) if fmt == "ips" else check_sfc(tag, r["output"], sub)
                # symbol file
                syms = parse_symfile(r["sym"] or "")
                if syms is None:
                    out.bad("symfile:format", sub, f"symbol file is not '[labels]' + 'bank:offset name' lines:\n{(r['sym'] or '')[:300]}")
                else:
                    got = collections.Counter(syms)
                    exp = collections.Counter((n_, v_ & 0xFFFFFF) for n_, v_ in model.labels_outside_loops)
                    names_in_loops = set(model.names_under_loops)
                    for (name, v), cnt in exp.items():
                        if name in names_in_loops:
                            continue  # the same name is also defined inside a loop: those entries may or may not be listed
                        if got[(name, v)] != cnt:
                            out.bad("symfile:label", sub, f"label {name}={v:#08x} has {cnt} definition(s) outside loops but is listed {got[(name, v)]} time(s) in the symbol file; entries for that name: {[s for s in syms if s[0] == name]}\n{src}")
                            break
                    else:
                        # nothing but label definitions is listed: an entry under a name no label has lists some definition twice
                        known = {n_ for n_, _ in model.labels}
                        extra = [s_ for s_ in syms if s_[0] not in known]
                        if extra:
                            out.bad("symfile:extra-entry", sub, f"the symbol file lists {extra[:4]}, which are not label definitions of the program (labels: {sorted(known)[:12]})\n{src}")
        # ---- command line
        argv = ["-f", fmt, "-m", rom] + (["--copier-header"] if cop else []) + dargs
        cenv = environment()
        runs = [("cli", driver.cli_inproc(argv, src, files=allfiles, env=cenv))]
        sub = dict(sub, env=cenv)
        if case.get("sub"):
            runs.append(("cli-subprocess", driver.cli_subprocess(argv, src, files=allfiles)))
        for tag, r in runs:
            out.evals += 1
            nt += nontrivial_point
            if r["status"] not in ("ok",) or r["rc"] != 0:
                out.bad(f"{tag}:failed:{fmt}:{rom}:{'D' if defines else '-'}", sub,
                        f"{tag} {' '.join(argv)} failed: status={r['status']} exit={r['rc']} {r.get('exc')} {(r.get('msg') or r.get('log') or '')[-300:]}\n{src}")
                continue
            if r["output"] is None:
                out.bad(f"{tag}:no-output", sub, f"{tag} {' '.join(argv)} wrote no output file")
                continue
            if fmt == "ips":
                check_ips(f"{tag}:{rom}", r["output"], cop, sub)
            elif not cop:
                check_sfc(f"{tag}:{rom}", r["output"], sub)
            out.labels.append(f"point:{fmt}:{'copier' if cop else 'plain'}")
    out.nontrivial = nt
    if nblocks >= 2:
        out.labels.append("blocks>=2")
    return out


ESSENTIAL = {"blocks>=2": 0.3}
