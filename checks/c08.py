"""C08 — names resolve lexically; scopes isolate; named scopes export."""
from __future__ import annotations

import collections
import copy

from vlib import add_repo_to_path, driver, gen, progen, render, twins
from vlib.model import refasm
from vlib.model import expr as X
from vlib.runner import Outcome
from checks.c03 import compare_with_model

add_repo_to_path()

PROPERTY = "C08"
LEVEL = "exploration"
TECHNIQUE = "Hypothesis-seeded generated scope nestings with a deliberately small name pool (shadowing, sibling reuse, forward qualified references) compared with an independent environment model, plus model-free metamorphic twins (consistent renaming, unrelated definition, sibling duplicate) and injected out-of-scope references"
RULE = (
    "nesting trees (depth <=4) of blocks, named scopes, macro applications and loops; definitions (labels, = and := constants) drawn from small pools (lb_a..d, kx_a..c, ke_a..c) so that shadowing and sibling reuse are "
    "frequent; references `.dl name`, sized operands and `scope.name` placed before and after definitions, in the defining scope, in descendants and from outside.  Oracle 1: vlib/model/refasm.py environment "
    "(expected value or expected rejection).  Oracle 2 (model-free): renaming one scope-local label consistently leaves blocks and all other labels unchanged; adding a fresh label inside another scope, or a sibling block "
    "that re-defines an existing label name, leaves the emitted bytes unchanged.  Oracle 3: a reference injected at top level to a name only defined in an inner scope is rejected.  Non-trivial = a name "
    "defined in >=2 scopes (shadowing or sibling reuse) that is also referenced, or a qualified reference; distinct by case hash."
)
LEVEL_TEXT = "Differential exploration against an independent lexical-environment model plus three model-free metamorphic relations over generated scope nestings."
LEVEL_NOTE = "Trusted: vlib/model/refasm.py scoping, vlib/twins.py renaming. Not generated: more than one level of qualification, duplicate definitions inside one scope, = constants referenced before their definition, labels shadowing constants (separate pools)."
DESIGN_REF = "DESIGN.md §3 C08"
ASSUMPTIONS = ["renaming candidates exclude names mentioned in macro bodies / code arguments (dynamic call-site resolution is as specified)"]

PROFILE = progen.Profile(shadowing=True, incbin=False, ascii=False, reloc_ram=False, reloc_rom=False, branches=False, unsized_literals=False,
                         max_stmts=14, max_depth=4, call_weight=2, loop_weight=1, if_weight=2, code_args=False, recursion=False, scope_weight=4, block_weight=4, lc_prob=0.3)


def selftest() -> None:
    refasm.selftest()
    ir = [{"k": "org", "a": 0x8000}, {"k": "label", "n": "lb_a"}, {"k": "scope", "n": "sc_1", "b": [{"k": "label", "n": "lb_a"}, {"k": "data", "d": "dl", "es": [["id", "lb_a"]]}]},
          {"k": "data", "d": "dl", "es": [["id", "sc_1.lb_a"], ["id", "lb_a"]]}]
    r = twins.rename_by_model(ir, lambda c: c[2]["b"][0], "lb_zz")
    assert r[2]["b"][0]["n"] == "lb_zz" and r[2]["b"][1]["es"][0] == ["id", "lb_zz"] and r[3]["es"] == [["id", "sc_1.lb_zz"], ["id", "lb_a"]] and r[1]["n"] == "lb_a", r
    r = twins.rename_by_model(ir, lambda c: c[1], "lb_zz")
    assert r[1]["n"] == "lb_zz" and r[2]["b"][0]["n"] == "lb_a" and r[2]["b"][1]["es"][0] == ["id", "lb_a"] and r[3]["es"][1] == ["id", "lb_zz"], r


def _build(rng):
    case = progen.generate(rng, PROFILE)
    case["twin_seed"] = rng.randint(0, 1 << 30)
    return case


def strategy(tier):
    return gen.seeded(_build)


def hyp_examples(tier):
    return 8000 if tier == "quick" else 120000


def enum_units(tier, seed):
    """fixed points: a label named like an outer := constant, referenced from a scope nested below the label's scope in
    the places that are evaluated at expansion time (the outer constant must not leak in)"""
    L = lambda v: ["lit", v, "x"]
    db = lambda *e: {"k": "data", "d": "db", "es": list(e)}
    cases = []
    for outer_val in (5, 0):
        for ctx in ("block", "loop", "named", "block-block"):
            for use in ("if", "macro-arg", "dl", "if-else-label"):
                if use == "if":
                    inner = [{"k": "if", "c": ["id", "kx_a"], "t": [db(L(1))], "e": [db(L(2))]}]
                elif use == "macro-arg":
                    inner = [{"k": "call", "n": "m_p", "args": [["bin", "&", ["id", "kx_a"], L(0xFF)]]}]
                elif use == "dl":
                    inner = [{"k": "data", "d": "dl", "es": [["id", "kx_a"]]}]
                else:
                    inner = [{"k": "if", "c": ["bin", "+", ["id", "kx_a"], L(1)], "t": [db(L(3))], "e": None}, db(["bin", "&", ["id", "kx_a"], L(0xFF)])]
                if ctx == "block":
                    deep = [{"k": "block", "b": inner}]
                elif ctx == "loop":
                    deep = [{"k": "for", "v": "i_0", "lo": ["lit", 0, "d"], "hi": ["lit", 2, "d"], "b": inner}]
                elif ctx == "named":
                    deep = [{"k": "scope", "n": "sc_in", "b": inner}]
                else:
                    deep = [{"k": "block", "b": [{"k": "block", "b": inner}]}]
                ir = [{"k": "const", "n": "kx_a", "e": L(outer_val), "eager": True}, {"k": "org", "a": 0x018001},
                      {"k": "macro", "n": "m_p", "ps": ["p_px"], "b": [db(["id", "p_px"])]},
                      {"k": "block", "b": [db(L(0xEE)), {"k": "label", "n": "kx_a"}] + deep + [db(L(0xDD))]},
                      db(["bin", "&", ["id", "kx_a"], L(0xFF)])]
                cases.append({"rom": "low", "files": {}, "ir": ir, "twin_seed": 1})
    # a name defined in a non-top-level scope and referenced many levels below it, while the top level defines the same
    # name with another value: the nearest enclosing definition wins at any distance
    for depth in (3, 9, 16, 17, 18, 31, 32, 33, 34, 40, 70):
        for kinds in (("block",), ("block", "scope", "if", "for"), ("for", "block")):
            inner = [db(["id", "kx_deep"]), {"k": "data", "d": "dl", "es": [["id", "lb_deep"]]},
                     {"k": "if", "c": ["id", "kx_deep"], "t": [db(L(0x11))], "e": [db(L(0x22))]},
                     {"k": "data", "d": "dw", "es": [["bin", "+", ["id", "ke_deep"], L(1)]]}]
            ir = [{"k": "const", "n": "kx_deep", "e": L(0), "eager": True}, {"k": "const", "n": "ke_deep", "e": L(0x7777), "eager": False},
                  {"k": "org", "a": 0x028000}, {"k": "label", "n": "lb_deep"}, db(L(0xEE)),
                  {"k": "block", "b": [{"k": "const", "n": "kx_deep", "e": L(0x33), "eager": True}, {"k": "const", "n": "ke_deep", "e": L(0x1234), "eager": False},
                                       db(L(0xDD)), {"k": "label", "n": "lb_deep"}] + twins.nest(depth - 1, inner, kinds)},
                  db(["id", "kx_deep"])]
            cases.append({"rom": "low", "files": {}, "ir": ir, "twin_seed": depth})
    # one name in several roles, and one named scope written in several pieces
    dl = lambda *n: {"k": "data", "d": "dl", "es": [["id", x] for x in n]}
    lab = lambda n: {"k": "label", "n": n}
    org = {"k": "org", "a": 0x038000}
    mp = {"k": "macro", "n": "m_p", "ps": ["p_px"], "b": [db(["id", "p_px"])]}
    extra = [
        # a named scope opened twice: both pieces export under the same prefix
        [org, dl("sc_r.lb_x", "sc_r.lb_y"), {"k": "scope", "n": "sc_r", "b": [db(L(1)), lab("lb_x"), db(L(2))]}, dl("sc_r.lb_x", "sc_r.lb_y"),
         {"k": "scope", "n": "sc_r", "b": [db(L(3)), lab("lb_y"), db(L(4)), dl("lb_y")]}, dl("sc_r.lb_x", "sc_r.lb_y")],
        # a label named like a macro, like a named scope and like a loop variable / parameter used elsewhere
        [org, mp, lab("m_p"), {"k": "call", "n": "m_p", "args": [L(7)]}, dl("m_p"), {"k": "call", "n": "m_p", "args": [["bin", "&", ["id", "m_p"], L(0xFF)]]}],
        [org, lab("sc_r"), db(L(1)), {"k": "scope", "n": "sc_r", "b": [db(L(2)), lab("lb_x"), dl("lb_x", "sc_r")]}, dl("sc_r", "sc_r.lb_x")],
        [org, mp, lab("p_px"), db(L(0xAA)), lab("i_0"), {"k": "call", "n": "m_p", "args": [L(3)]}, {"k": "for", "v": "i_0", "lo": L(1), "hi": L(3), "b": [db(["id", "i_0"])]},
         dl("p_px", "i_0"), {"k": "call", "n": "m_p", "args": [["bin", "&", ["id", "i_0"], L(0xFF)]]}],
        # a named scope inside a body that is expanded twice: each expansion exports its own
        [org, {"k": "macro", "n": "m_s", "ps": ["p_sx"], "b": [{"k": "scope", "n": "sc_m", "b": [db(["id", "p_sx"]), lab("lb_in")]}, dl("sc_m.lb_in")]},
         {"k": "call", "n": "m_s", "args": [L(1)]}, {"k": "call", "n": "m_s", "args": [L(2)]}],
        [org, {"k": "for", "v": "i_0", "lo": L(0), "hi": L(2), "b": [dl("sc_l.lb_in"), {"k": "scope", "n": "sc_l", "b": [db(["id", "i_0"]), lab("lb_in")]}, dl("sc_l.lb_in")]}],
        # a named scope inside a named scope: the inner export is visible in the outer one under the inner prefix
        [org, {"k": "scope", "n": "sc_o", "b": [db(L(1)), {"k": "scope", "n": "sc_i", "b": [db(L(2)), lab("lb_in"), db(L(3))]}, dl("sc_i.lb_in"), lab("lb_o")]}, dl("sc_o.lb_o")],
        # a := constant and a label of the same name in sibling scopes, and the same name at the top level
        [{"k": "const", "n": "kx_q", "e": L(0x11), "eager": True}, org, {"k": "block", "b": [lab("kx_q"), dl("kx_q")]}, {"k": "block", "b": [{"k": "const", "n": "kx_q", "e": L(0x22), "eager": True}, db(["id", "kx_q"])]},
         {"k": "block", "b": [{"k": "const", "n": "kx_q", "e": L(0x123456), "eager": False}, dl("kx_q")]}, db(["id", "kx_q"])],
    ]
    # a named scope whose name is also a constant / a label further out, written inside a block, a loop, a macro body or another
    # named scope: the plain name keeps meaning the outer definition, in the scope's parent and inside the scope
    for outer_kind in ("eager", "late", "label"):
        for ctx in ("block", "loop", "macro", "named", "root"):
            inner = [db(["bin", "&", ["id", "sc_q"], L(0xFF)]), {"k": "scope", "n": "sc_q", "b": [db(L(0xAA)), lab("lb_t"), dl("sc_q"), db(L(0xAB))]},
                     dl("sc_q", "sc_q.lb_t")]
            if outer_kind == "label":
                inner = inner[1:]  # (a byte-sized use of a label value is not a name test)
            pre = [{"k": "const", "n": "sc_q", "e": L(0x21), "eager": outer_kind == "eager"}] if outer_kind != "label" else []
            first = [org] + ([lab("sc_q"), db(L(0x55))] if outer_kind == "label" else [])
            if ctx == "block":
                wrap = [{"k": "block", "b": inner}]
            elif ctx == "loop":
                wrap = [{"k": "for", "v": "i_0", "lo": L(0), "hi": L(2), "b": inner}]
            elif ctx == "macro":
                wrap = [{"k": "macro", "n": "m_w", "ps": [], "b": inner}, {"k": "call", "n": "m_w", "args": []}, {"k": "call", "n": "m_w", "args": []}]
            elif ctx == "named":
                wrap = [{"k": "scope", "n": "sc_w", "b": inner}]
            else:
                wrap = inner
            extra.append(pre + first + wrap + [dl("sc_q")])
    # a parameter whose argument is only known late (a label defined after the call) while an outer := constant / an enclosing
    # application's parameter has the parameter's name: inside the body the name is the parameter, also where values are needed early
    mj = {"k": "macro", "n": "m_j", "ps": ["p_dest"], "b": [{"k": "call", "n": "m_p", "args": [["bin", "&", ["id", "p_dest"], L(0xFF)]]}, dl("p_dest"),
                                                          {"k": "if", "c": ["id", "p_dest"], "t": [db(L(1))], "e": [db(L(2))]}, {"k": "ins", "m": "lda", "shape": ["", None, None], "sfx": "w", "e": ["id", "p_dest"]}]}
    extra.append([{"k": "const", "n": "p_dest", "e": L(1), "eager": True}, org, mp, mj, {"k": "call", "n": "m_j", "args": [["id", "lb_later"]]}, db(["id", "p_dest"]), lab("lb_later"), db(L(0x60))])
    extra.append([org, mp, mj, {"k": "macro", "n": "m_outer", "ps": ["p_dest"], "b": [{"k": "call", "n": "m_j", "args": [["id", "lb_later"]]}, db(["id", "p_dest"])]},
                  {"k": "call", "n": "m_outer", "args": [L(3)]}, lab("lb_later"), db(L(0x60))])
    extra.append([org, mp, mj, {"k": "for", "v": "p_dest", "lo": L(1), "hi": L(3), "b": [{"k": "call", "n": "m_j", "args": [["id", "lb_later"]]}, db(["id", "p_dest"])]}, lab("lb_later"), db(L(0x60))])
    # a name that an inner scope has already looked up while the program was expanded (an .if with empty branches, an argument of a
    # macro that ignores it) and that the enclosing scope defines as a label further down: the inner uses that are evaluated
    # later (data, sized operands) refer to that label, not to the constant of the same name further out
    me = {"k": "macro", "n": "m_e", "ps": ["p_e"], "b": [db(L(0xE0))]}
    for early in ([{"k": "if", "c": ["id", "kx_w"], "t": [], "e": []}], [{"k": "call", "n": "m_e", "args": [["id", "kx_w"]]}], []):
        for nest in (1, 2):
            inner = early + [dl("kx_w"), {"k": "ins", "m": "lda", "shape": ["", None, None], "sfx": "w", "e": ["id", "kx_w"]}]
            body = inner
            for _ in range(nest):
                body = [{"k": "block", "b": body}]
            extra.append([{"k": "const", "n": "kx_w", "e": L(2), "eager": True}, org, me, {"k": "block", "b": body + [db(L(0x5A)), lab("kx_w"), db(L(0x5B))]}, dl("kx_w")])
            extra.append([{"k": "const", "n": "kx_w", "e": L(2), "eager": True}, org, me, {"k": "block", "b": body + [db(L(0x5A)), {"k": "const", "n": "kx_w", "e": L(0x4321), "eager": False}]}, dl("kx_w")])
    # names that differ only in letter case are different names (an inner LB_LOOP does not capture a reference to the outer lb_loop)
    extra.append([{"k": "const", "n": "kx_v", "e": L(9), "eager": True}, {"k": "const", "n": "i_0", "e": L(0x77), "eager": True}, org, lab("lb_loop"), db(L(1)),
                  {"k": "block", "b": [lab("LB_LOOP"), db(L(2)), dl("lb_loop", "LB_LOOP"), lab("Lb_Loop"), dl("Lb_Loop")]},
                  {"k": "scope", "n": "sc_u", "b": [{"k": "const", "n": "Kx_v", "e": L(5), "eager": True}, db(["id", "kx_v"], ["id", "Kx_v"]), {"k": "const", "n": "KX_V", "e": L(0x1234), "eager": False}, dl("KX_V", "kx_v")]},
                  {"k": "macro", "n": "m_u", "ps": ["Kx_v"], "b": [db(["id", "kx_v"], ["id", "Kx_v"])]}, {"k": "call", "n": "m_u", "args": [L(3)]},
                  {"k": "for", "v": "I_0", "lo": L(1), "hi": L(3), "b": [db(["id", "i_0"], ["id", "I_0"])]}, dl("sc_u.Kx_v", "lb_loop")])
    # a named scope written directly in a loop body exports into the iteration only: a scope of the same name outside the loop keeps
    # its own members
    extra.append([org, {"k": "scope", "n": "sc_l", "b": [lab("lb_x"), db(L(1))]}, dl("sc_l.lb_x"),
                  {"k": "for", "v": "i_0", "lo": L(0), "hi": L(2), "b": [db(L(0xF0)), {"k": "scope", "n": "sc_l", "b": [db(L(2)), lab("lb_x"), {"k": "const", "n": "k_x", "e": L(7), "eager": True}]}, dl("sc_l.lb_x")]},
                  dl("sc_l.lb_x"), {"k": "block", "b": [{"k": "for", "v": "i_1", "lo": L(0), "hi": L(1), "b": [{"k": "scope", "n": "sc_l", "b": [db(L(3)), lab("lb_x")]}]}, dl("sc_l.lb_x")]}])
    # a `=` definition whose value uses a name that its own scope defines as a label further down, while a constant of that name is
    # known further out: the value is built from the label (the nearest definition), in a block, a named scope and a macro body
    for wrapk in ("block", "named", "macro"):
        body = [{"k": "const", "n": "kx_p", "e": ["bin", "+", ["id", "kx_w"], L(1)], "eager": False}, dl("kx_p"), db(L(0x5A)), lab("kx_w"), db(L(0xAA))]
        wrap = [{"k": "block", "b": body}] if wrapk == "block" else [{"k": "scope", "n": "sc_t", "b": body}, dl("sc_t.kx_p")] if wrapk == "named" else \
               [{"k": "macro", "n": "m_w", "ps": [], "b": body}, {"k": "call", "n": "m_w", "args": []}]
        extra.append([{"k": "const", "n": "kx_w", "e": L(0x1234), "eager": True}, org] + wrap + [dl("kx_w")])
    for i, ir in enumerate(extra):
        cases.append({"rom": "low", "files": {}, "ir": ir, "twin_seed": 100 + i})
    return {"units": [{"cases": cases[i::8]} for i in range(8)], "exhaustive": False}


def unit_cases(unit):
    return unit["cases"]


def _name_stats(ir):
    defs = collections.Counter()
    refs = collections.Counter()
    qualified = [0]

    def f(st, in_macro):
        if st["k"] in ("label", "const"):
            defs[st["n"]] += 1
        for cont, key in twins.stmt_exprs(st):
            for n in X.idents(cont[key]):
                refs[n] += 1
                if "." in n:
                    qualified[0] += 1

    twins.walk(ir, f)
    shadowed = [n for n, c in defs.items() if c >= 2 and refs[n]]
    return shadowed, qualified[0]


def run_case(case) -> Outcome:
    import random

    out = Outcome(evals=1, labels=[])
    model, real, src = compare_with_model(case, out)
    if out.skip:
        return out
    shadowed, nq = _name_stats(case["ir"])
    out.nontrivial = bool(shadowed) or nq > 0
    if shadowed:
        out.labels.append("shadowing/reuse")
    if nq:
        out.labels.append("qualified-ref")
    out.sample = {"rom": case["rom"], "source": src.splitlines()[:45], "model": model.status, "names_defined_twice_and_used": shadowed[:5]}
    if not real.accepted or model.status != "ok":
        return out
    rng = random.Random(case.get("twin_seed", 0))
    files = case.get("files") or {}
    # the metamorphic twins are built on the program with its .if / .for written out (outside macro bodies), so
    # that "which scope defines which name" is syntactic; that this expansion preserves the output is C10's subject
    base_ir, st = twins.hand_expand(case["ir"])
    if st["kept"]:
        return out
    bsrc, binc, _ = render.render(base_ir)
    base = driver.assemble_mem(bsrc, rom=case["rom"], files={**files, **binc})
    out.evals += 1
    if not base.accepted or driver.flatten(base["blocks"]) != driver.flatten(real["blocks"]):
        out.labels.append("twins-skipped:expansion-differs")
        return out
    src = bsrc
    real = base
    case_ir = base_ir
    base_flat = driver.flatten(real["blocks"])
    base_labels = collections.Counter(real["labels"])
    sites = twins.scope_label_sites(case_ir)
    banned = twins.names_in_macro_bodies(case_ir)

    def asm(ir):
        s, inc, _ = render.render(ir)
        out.evals += 1
        return s, driver.assemble_mem(s, rom=case["rom"], files={**files, **inc})

    # ---- twin 1: consistent renaming of one scope-local label
    cands = [s for s in sites if s[1] not in banned and (s[2] is None or f"{s[2]}.{s[1]}" not in banned)]
    if cands:
        path, name, scope_name, parent_path = rng.choice(cands)
        new = "lb_renamed"

        def locate(ir_copy, path=path, name=name):
            # the label statement in the scope at `path` (also inside its inline .if / .include bodies)
            def find(stmts):
                for st in stmts:
                    if st["k"] == "label" and st["n"] == name:
                        return st
                    if st["k"] == "if":
                        r_ = find(st["t"]) or (find(st["e"]) if st.get("e") is not None else None)
                        if r_:
                            return r_
                    if st["k"] == "include":
                        r_ = find(st["b"])
                        if r_:
                            return r_
                return None
            return find(twins.navigate(ir_copy, path))

        twin = twins.rename_by_model(case_ir, locate, new, rom=case["rom"], files={k: driver.file_bytes(v) for k, v in files.items()}, usermap=case.get("usermap"))
        if twin is None:
            twin = case_ir
            out.labels.append("twin:rename-skipped")
        tsrc, tr = asm(twin)
        out.labels.append("twin:rename")
        if twin is case_ir:
            pass
        elif not tr.accepted:
            out.bad("rename:twin-rejected", case, f"renaming {name} -> {new} in scope path {path} made the program fail: {tr['exc']} {tr.failure_text[:200]}\n--- original\n{src}\n--- renamed\n{tsrc}")
        else:
            if driver.flatten(tr["blocks"]) != base_flat:
                out.bad("rename:bytes-changed", case, f"renaming {name} -> {new} (scope path {path}) changed the output\n--- original\n{src}\n--- renamed\n{tsrc}")
            else:
                # all other labels unchanged; the renamed one keeps its value under the new name
                a = collections.Counter((n if n != new else name, v) for n, v in tr["labels"])
                if a != base_labels:
                    out.bad("rename:labels-changed", case, f"labels changed by renaming: {sorted((a - base_labels).elements())} vs {sorted((base_labels - a).elements())}\n{src}")
    # ---- twin 2: an unrelated fresh definition inside another scope
    paths = sorted({s[0] for s in sites} | {()})
    path = rng.choice(paths)
    twin = twins.add_unrelated(case_ir, path, "lb_unrelated_zz")
    tsrc, tr = asm(twin)
    out.labels.append("twin:unrelated")
    if not tr.accepted or driver.flatten(tr["blocks"]) != base_flat:
        out.bad("unrelated-definition-changed-output", case, f"adding the label lb_unrelated_zz at the end of scope path {path} changed the output / failed ({tr['exc']})\n--- original\n{src}\n--- twin\n{tsrc}")
    # ---- twin 3: a sibling scope that re-defines an existing (inner) label name
    inner = [s for s in sites if s[0] != ()]
    if inner:
        _, name, _, _ = rng.choice(inner)
        twin = copy.deepcopy(case_ir) + [{"k": "block", "b": [{"k": "label", "n": name}]}]
        tsrc, tr = asm(twin)
        out.labels.append("twin:sibling-duplicate")
        if not tr.accepted or driver.flatten(tr["blocks"]) != base_flat:
            out.bad("sibling-duplicate-changed-output", case, f"a new sibling block defining {name} changed the output / failed ({tr['exc']})\n--- original\n{src}\n--- twin\n{tsrc}")
        # ---- oracle 3: out-of-scope reference (a plain inner name, or the export of a named scope nested in a block)
        nested_named = [s_ for s_ in sites if s_[2] is not None and len(s_[0]) >= 2]
        if nested_named and rng.random() < 0.6:
            _, nm, scn, _ = rng.choice(nested_named)
            name = f"{scn}.{nm}"
            out.labels.append("probe:qualified")
        probe = copy.deepcopy(case_ir) + [{"k": "data", "d": "dl", "es": [["id", name]]}]
        pm = refasm.assemble(probe, rom=case["rom"], files={k: driver.file_bytes(v) for k, v in files.items()})
        psrc, pr = asm(probe)
        out.labels.append("probe:out-of-scope" if pm.status == "reject" else "probe:visible")
        if pm.status == "reject" and pr.accepted:
            out.bad("out-of-scope-reference-accepted", case, f"`.dl {name}` at top level refers to a name only defined in an inner scope but assembled: {driver.blocks_json(pr['blocks'], 24)[-1:]}\n{psrc}")
        elif pm.status == "ok" and not pr.accepted:
            out.bad("visible-reference-rejected", case, f"`.dl {name}` at top level is visible per the model but was rejected: {pr['exc']} {pr.failure_text[:200]}\n{psrc}")
        elif pm.status == "ok" and driver.flatten(pr["blocks"]) != pm.writes:
            out.bad("probe-value", case, f"`.dl {name}` at top level evaluates differently from the model\n{psrc}")
    return out


ESSENTIAL = {"shadowing/reuse": 0.2, "twin:rename": 0.3, "probe:out-of-scope": 0.15}
