"""C01 — accepted instructions encode exactly as the 65c816 ISA defines."""
from __future__ import annotations

import json
import os

from hypothesis import strategies as st

from vlib import VERIF_ROOT, add_repo_to_path, driver, gen
from vlib.model import expr as X
from vlib.model import isa
from vlib.runner import Outcome

add_repo_to_path()

PROPERTY = "C01"
LEVEL = "exploration"
TECHNIQUE = "exhaustive product mnemonic x operand shape x size suffix x boundary value x letter case against an independent 256-entry opcode matrix, plus Hypothesis-generated operand expressions"
RULE = (
    "one-instruction programs `*=0x008000` + line: every mnemonic of the assembler's table and of the ISA matrix x 47 operand shapes (implied; plain/# with "
    "none,x,y,s and double indexes; ( ) and [ ] with every inner x outer index in {none,x,y,s}) x suffix {none,.b,.w,.l} x values (thorough: 0,0x7F,0xFF,0x100,0x1234,"
    "0xFFFF,0x10000,0x123456,0xFFFFFF,0x1000000; quick: 0xFF,0x100,0xFFFF,0x10000,0x123456,0x1234567 -- a value wider than the field is truncated or the statement rejected) x letter case {lower, UPPER, Mixed}; unsuffixed operands also spelled as zero-padded hex (4/6/8 digits), decimal and zero-padded binary, and as a single `:=` symbol whose name looks like a register or a size suffix (a, A, x, Y, s, S, b, w, L); plus Hypothesis operands that are random "
    "expression trees in #, plain, ( ) and [ ] position.  Oracle: accepted => bytes == ISA opcode for (mnemonic, syntax, width) + value truncated little-endian, one block; "
    "ISA-undefined combination => rejected; supported_set.json cell => accepted; letter case changes nothing.  Non-trivial = accepted with >=1 operand byte, or rejected "
    "ISA-undefined shape; distinct by construction (enumeration) / case hash."
)
LEVEL_TEXT = ("Complete enumeration of the finite mnemonic x shape x width x boundary-value x case space (thorough) against an independent opcode matrix typed in from the WDC data sheet; "
              "arbitrary operand expressions are sampled with Hypothesis.")
LEVEL_NOTE = ("Trusted: vlib/model/isa.py (256 distinct opcodes, column-regularity self-test) and checks/supported_set.json (frozen list of ISA-defined cells the tree assembles). Not asserted: rejection of ISA-defined "
              "but unsupported cells, unsuffixed negative operands, `.l` with values >= 2^24, size suffixes on relative branches (counted only).")
DESIGN_REF = "DESIGN.md §3 C01, §2.4"
ASSUMPTIONS = ["a816 surface syntax -> ISA mode mapping of vlib/model/isa.py:operand_mode", "branches' encodings are owned by C05"]

IDX = [None, "x", "y", "s"]
SHAPES: list[tuple] = [("imp", None, None)]
for _p in ("", "#"):
    for _o in IDX:
        SHAPES.append((_p, None, _o))
    SHAPES += [(_p, "x", "y"), (_p, "y", "x"), (_p, "s", "y")]
for _p in ("(", "["):
    for _i in IDX:
        for _o in IDX:
            SHAPES.append((_p, _i, _o))
SUFFIXES = ["", "b", "w", "l"]
VALUES_T = [0, 0x7F, 0xFF, 0x100, 0x1234, 0xFFFF, 0x10000, 0x123456, 0xFFFFFF, 0x1000000, 0x1234567]
VALUES_Q = [0xFF, 0x100, 0xFFFF, 0x10000, 0x123456, 0x1234567]
CASES = ["lower", "upper", "mixed"]
SUPPORTED_PATH = os.path.join(VERIF_ROOT, "checks", "supported_set.json")


REGISTER_LIKE = ["a", "A", "x", "Y", "s", "S", "b", "w", "L", "k_v", "_v", "_Cnt9", "__"]


def selftest() -> None:
    isa.selftest()
    assert len(SHAPES) == 47


def load_supported() -> set:
    if not os.path.exists(SUPPORTED_PATH):
        return set()
    with open(SUPPORTED_PATH, encoding="utf-8") as f:
        return {tuple(x) for x in json.load(f)["cells"]}


_SUPPORTED = None


def supported() -> set:
    global _SUPPORTED
    if _SUPPORTED is None:
        _SUPPORTED = load_supported()
    return _SUPPORTED


def all_mnemonics() -> list[str]:
    from a816.cpu.cpu_65c816 import snes_opcode_table

    return sorted(set(snes_opcode_table.keys()) | set(isa.MNEMONICS))


def apply_case(s: str, mode: str, which: str) -> str:
    if mode == "lower":
        return s.lower()
    if mode == "upper":
        return s.upper()
    # mixed: mnemonic Capitalised, suffix upper, index lower
    if which == "mnemonic":
        return s[0].upper() + s[1:].lower()
    if which == "suffix":
        return s.upper()
    return s.lower()


def render_line(m, shape, sfx, operand_text, case) -> str:
    prefix, inner, outer = shape
    line = apply_case(m, case, "mnemonic")
    if sfx:
        line += "." + apply_case(sfx, case, "suffix")
    if prefix == "imp":
        return line
    ii = ("," + apply_case(inner, case, "index")) if inner else ""
    oo = ("," + apply_case(outer, case, "index")) if outer else ""
    if prefix in ("", "#"):
        return f"{line} {prefix}{operand_text}{ii}{oo}"
    close = ")" if prefix == "(" else "]"
    return f"{line} {prefix}{operand_text}{ii}{close}{oo}"


def canon(shape):
    """semantic (prefix, inner, outer); for plain/# a single index is the (outer) index; two are malformed"""
    prefix, inner, outer = shape
    if prefix in ("", "#") and inner and not outer:
        return (prefix, None, inner)
    return shape


def rng_pad(value: int) -> int:
    """zero-padded binary literal width: the next multiple of 8 bits above the value's own width"""
    return ((value.bit_length() + 7) // 8 + 1) * 8


def infer_width(value: int) -> int:
    return 1 if value < 0x100 else 2 if value < 0x10000 else 3


def expected(m, shape, sfx, value):
    """-> ('imp', byte) | ('op', byte, width) | ('undefined',) | ('branch',)"""
    prefix, inner, outer = canon(shape)
    if prefix == "imp":
        b = isa.implied(m)
        return ("undefined",) if b is None or sfx else ("imp", b)
    w = {"b": 1, "w": 2, "l": 3}[sfx] if sfx else infer_width(value)
    if (m.lower(), "rel8") in isa.BY_KEY and prefix == "" and inner is None and outer is None:
        return ("branch",)
    if prefix in ("", "#") and inner and outer:
        return ("undefined",)
    b = isa.lookup(m, prefix, inner, outer, w)
    if b is None:
        return ("undefined",)
    return ("op", b, w)


def check_one(out: Outcome, m, shape, sfx, value, case, line, sub, stats=None, prelude=""):
    res = driver.assemble_mem(prelude + "*=0x008000\n" + line + "\n")
    exp = expected(m, shape, sfx, value)
    shp = f"{shape[0]}{shape[1] or '-'}{shape[2] or '-'}"
    cell = (m, shape[0], canon(shape)[1], canon(shape)[2], exp[2] if exp[0] == "op" else 0)
    if exp[0] == "branch":
        if stats is not None:
            stats["branch-counted"] += 1
        return False
    if res.accepted:
        got = b"".join(d for _, d in res["blocks"])
        nblocks = len(res["blocks"])
        if exp[0] == "undefined":
            out.bad(f"accepted-undefined:{m}:{shp}:{sfx or '-'}", sub,
                    f"`{line}` is not a 65c816 instruction (no opcode for this mnemonic/shape/width) but assembled to {got.hex()}")
            return True
        want = bytes([exp[1]]) if exp[0] == "imp" else bytes([exp[1]]) + (value & ((1 << (8 * exp[2])) - 1)).to_bytes(exp[2], "little")
        if got != want or nblocks != 1 or res["blocks"][0][0] != 0:
            kind = "wrong-opcode" if got[:1] != want[:1] else "wrong-operand"
            out.bad(f"{kind}:{m}:{shp}:w{exp[2] if exp[0] == 'op' else 0}", sub,
                    f"`{line}` assembled to {got.hex()} in {nblocks} block(s) at {[a for a, _ in res['blocks']]}, ISA says {want.hex()}")
        if stats is not None:
            stats["accepted"] += 1
            if cell in supported():
                stats["cell:" + "/".join(str(x) for x in cell)] += 1
        return exp[0] == "op"
    # rejected
    if exp[0] != "undefined" and cell in supported():
        representable = not (exp[0] == "op" and exp[2] == 3 and not (0 <= value < 1 << 24))
        if representable:
            out.bad(f"supported-rejected:{m}:{shp}:w{cell[4]}:{case}", sub,
                    f"`{line}` is in the assembler's supported set but was rejected: {res['status']} {res['exc']} {res.failure_text[:160]}")
    if stats is not None:
        stats["rejected-undefined" if exp[0] == "undefined" else "rejected-unsupported"] += 1
    return exp[0] == "undefined"


def enum_units(tier, seed):
    units = [{"t": "mn", "m": m, "tier": tier} for m in all_mnemonics()]
    return {"units": units, "exhaustive": tier == "thorough"}


def unit_cases(unit):
    yield unit
    if unit.get("t") == "mn":
        yield {"t": "expansions", "m": unit["m"]}


def hyp_examples(tier):
    return 6000 if tier == "quick" else 300000


_EXPR_SHAPES = [("", None, None), ("", None, "x"), ("", None, "y"), ("#", None, None), ("(", None, None), ("(", None, "y"),
                ("(", "x", None), ("(", "s", "y"), ("[", None, None), ("[", None, "y"), ("", None, "s")]


def _build_expr_case(rng):
    from a816.cpu.cpu_65c816 import snes_opcode_table

    m = rng.choice(sorted(k for k in snes_opcode_table if k not in isa.BRANCHES8))
    shape = rng.choice(_EXPR_SHAPES)
    sfx = rng.choice(SUFFIXES)
    env = {"k_a": rng.choice([0, 5, 0xFF, 0x100, 0x1234, 0x12345]), "lb_a": 0x008000}
    raw = gen.r_expr(rng, names=["k_a", "lb_a"], max_leaves=rng.choice([2, 4, 8]), lit_max=1 << 24)
    tree, v = gen.repair(raw, env)
    if v < 0:
        tree, v = gen.repair(["bin", "-", ["lit", 0, "d"], tree], env)  # keep the value non-negative (inference is only defined there)
    if v >= 1 << 24:
        tree, v = gen.repair(["bin", "&", tree, ["lit", 0xFFFFFF, "x"]], env)
    if shape[0] == "" and tree[0] == "par":
        tree = tree[1]
    return {"t": "expr", "m": m, "shape": list(shape), "sfx": sfx, "tree": tree, "env": env, "case": rng.choice(CASES)}


def strategy(tier):
    return gen.seeded(_build_expr_case)


def run_case(case) -> Outcome:
    import collections

    t = case["t"]
    if t == "mn":
        m = case["m"]
        out = Outcome(evals=0, nontrivial=0)
        stats = collections.Counter()
        values = VALUES_T if case["tier"] == "thorough" else VALUES_Q
        cases = CASES if case["tier"] == "thorough" else CASES[:2]
        nt = ev = 0
        for shape in SHAPES:
            for sfx in SUFFIXES:
                for value in (values if shape[0] != "imp" else [0]):
                    for lc in cases:
                        line = render_line(m, shape, sfx, "0x%x" % value, lc)
                        sub = {"t": "one", "m": m, "shape": list(shape), "sfx": sfx, "v": value, "case": lc}
                        if check_one(out, m, shape, sfx, value, lc, line, sub, stats):
                            nt += 1
                        ev += 1
        # literal spellings: the width follows the VALUE, not the digits written (zero-padded hex, decimal, binary)
        for shape in SHAPES:
            if shape[0] == "imp" or canon(shape) != shape:
                continue
            for value in (0x12, 0xFF, 0x100, 0x1234, 0x12345):
                for form in ("%04x", "%06x", "%08x", "dec", "bin"):
                    if form == "dec":
                        text = str(value)
                    elif form == "bin":
                        text = "0b" + bin(value)[2:].zfill(rng_pad(value))
                    else:
                        text = "0x" + form % value
                    line = render_line(m, shape, "", text, "lower")
                    sub = {"t": "one", "m": m, "shape": list(shape), "sfx": "", "v": value, "case": "lower", "text": text}
                    if check_one(out, m, shape, "", value, "lower", line, sub, stats):
                        nt += 1
                    ev += 1
        # the operand written as one symbol, including names that look like registers or size suffixes: a name that
        # is defined is an ordinary operand expression whatever it is called
        for shape in SHAPES:
            if shape[0] == "imp" or canon(shape) != shape:
                continue
            for value in (0x12, 0x1234, 0x12345):
                for name in REGISTER_LIKE:
                    for sfx in ("", "w"):
                        line = render_line(m, shape, sfx, name, "lower")
                        prelude = f"{name} := 0x{value:x}\n"
                        sub = {"t": "one", "m": m, "shape": list(shape), "sfx": sfx, "v": value, "case": "lower", "text": name, "prelude": prelude}
                        if check_one(out, m, shape, sfx, value, "lower", line, sub, stats, prelude=prelude):
                            nt += 1
                        ev += 1
        out.evals, out.nontrivial = ev, nt
        out.labels = [f"enum:{k}" for k in stats if not k.startswith("cell:")] + [k for k in stats if k.startswith("cell:")] + [f"mnemonic:{m}"]
        out.sample = {"mnemonic": m, "lines_tried": ev, "stats": dict(stats),
                      "example": render_line(m, ("(", "s", "y"), "", "0x12", "upper")}
        return out
    if t == "expansions":
        # the same source line assembled several times (macro applications, loop iterations) with operands of
        # different width classes: each instance is encoded for ITS operand value
        m = case["m"]
        out = Outcome(evals=0, nontrivial=0, labels=["expansions"])
        for shape in (("", None, None), ("", None, "x"), ("#", None, None)):
            for order in ([0x10, 0x2100, 0x7E2000, 0x12], [0x7E2000, 0x10, 0x2100], [0x2100, 0x2100, 0x10]):
                opnd = render_line(m, shape, "", "p_x", "lower")
                src = "*=0x008000\n.macro m_w(p_x) {\n" + opnd + "\n}\n" + "".join(f"m_w(0x{v:x})\n" for v in order)
                loop = "*=0x008000\n.for i_x := 0, 4 {\n" + render_line(m, shape, "", "i_x * 0x8000", "lower") + "\n}\n"
                for label, text, values in (("macro", src, order), ("loop", loop, [0, 0x8000, 0x10000, 0x18000])):
                    exps = [expected(m, shape, "", v) for v in values]
                    res = driver.assemble_mem(text)
                    out.evals += 1
                    if any(e[0] != "op" for e in exps) or any((m, shape[0], shape[1], shape[2], e[2]) not in supported() for e in exps):
                        continue  # some width has no cell: rejection is fine, acceptance is judged by the single-line enumeration
                    want = b"".join(bytes([e[1]]) + (v & ((1 << (8 * e[2])) - 1)).to_bytes(e[2], "little") for e, v in zip(exps, values))
                    out.nontrivial += 1
                    sub = {"t": "expansions", "m": m}
                    if not res.accepted:
                        out.bad(f"expansions-rejected:{m}:{label}", sub, f"every instance is a supported cell but the program was rejected: {res['exc']} {res.failure_text[:160]}\n{text}")
                    else:
                        got = b"".join(d for _, d in res["blocks"])
                        if got != want:
                            out.bad(f"expansions-wrong-encoding:{label}", sub, f"instances of one source line with operands {[hex(v) for v in values]}: emitted {got.hex()} expected {want.hex()}\n{text}")
        # the width of an unsuffixed operand is a matter of its value alone: not of the rep / sep instructions assembled before it
        for shape in (("#", None, None), ("", None, None)):
            for pre, pre_bytes in (("rep #0x30", b"\xc2\x30"), ("rep #0x20", b"\xc2\x20"), ("rep #0x10\nsep #0x20", b"\xc2\x10\xe2\x20"), ("sep #0x30\nrep #0x30", b"\xe2\x30\xc2\x30")):
                for v in (0x01, 0xFF, 0x100):
                    e = expected(m, shape, "", v)
                    if e[0] != "op" or (m, shape[0], shape[1], shape[2], e[2]) not in supported():
                        continue
                    text = "*=0x008000\n" + pre + "\n" + render_line(m, shape, "", "0x%x" % v, "lower") + "\n"
                    res = driver.assemble_mem(text)
                    out.evals += 1
                    out.nontrivial += 1
                    want = pre_bytes + bytes([e[1]]) + v.to_bytes(e[2], "little")
                    got = b"".join(d for _, d in res["blocks"]) if res.accepted else None
                    if got != want:
                        out.bad(f"after-rep-sep:{m}:{shape[0] or 'plain'}", {"t": "expansions", "m": m}, f"after `{pre}` the line `{render_line(m, shape, '', '0x%x' % v, 'lower')}` assembled to {got.hex() if got else res['exc']}, expected {want.hex()}\n{text}")
        out.sample = {"mnemonic": m, "what": "one source line, several expansions with operands of different width classes"}
        return out
    if t == "one":
        out = Outcome(evals=1)
        shape = tuple(case["shape"])
        line = render_line(case["m"], shape, case["sfx"], case.get("text") or "0x%x" % case["v"], case["case"])
        out.nontrivial = bool(check_one(out, case["m"], shape, case["sfx"], case["v"], case["case"], line, case, prelude=case.get("prelude", "")))
        return out
    if t == "expr":
        out = Outcome(evals=1)
        shape = tuple(case["shape"])
        env = case["env"]
        try:
            value = X.evaluate(case["tree"], env)
        except X.Undefined as e:
            return Outcome(skip=str(e))
        if value < 0 or value >= 1 << 24:
            return Outcome(skip="operand outside 0..2^24-1")
        text = X.render(case["tree"])
        if shape[0] == "" and text.startswith("(") and case["tree"][0] == "par":
            return Outcome(skip="plain operand wrapped in parentheses denotes indirect addressing")
        line = render_line(case["m"], shape, case["sfx"], text, case["case"])
        uses_label = "lb_a" in X.idents(case["tree"])
        prog = f"k_a := 0x{env['k_a']:x}\n*=0x008000\nlb_a:\n{line}\n"
        res = driver.assemble_mem(prog)
        exp = expected(case["m"], shape, case["sfx"], value)
        shp = f"{shape[0]}{shape[1] or '-'}{shape[2] or '-'}"
        out.labels = [f"expr:{shape[0] or 'plain'}", "expr:suffix" if case["sfx"] else "expr:inferred"]
        out.sample = {"line": line, "value": value, "accepted": res.accepted, "bytes": driver.blocks_json(res["blocks"])}
        if res.accepted:
            got = b"".join(d for _, d in res["blocks"])
            if exp[0] == "undefined":
                out.bad(f"accepted-undefined:{case['m']}:{shp}:{case['sfx'] or '-'}", case, f"`{line}` (operand value {value:#x}) assembled to {got.hex()} but the ISA defines no such instruction")
            elif exp[0] == "op":
                want = bytes([exp[1]]) + (value & ((1 << (8 * exp[2])) - 1)).to_bytes(exp[2], "little")
                if got != want:
                    out.bad(f"expr-wrong-encoding:{case['m']}:{shp}:w{exp[2]}", case, f"`{line}` (operand value {value:#x}) assembled to {got.hex()}, ISA says {want.hex()}")
                out.nontrivial = X.size(case["tree"]) > 1
        else:
            cell = (case["m"], shape[0], shape[1], shape[2], exp[2] if exp[0] == "op" else 0)
            if exp[0] == "op" and cell in supported():
                out.bad(f"expr-supported-rejected:{case['m']}:{shp}:w{exp[2]}", case,
                        f"`{line}` (operand value {value:#x}) rejected although the cell is supported: {res['status']} {res['exc']} {res.failure_text[:200]}")
        return out
    raise ValueError(t)


def coverage_extra(tier, total):
    """every cell of the supported set must have been assembled (and compared with the ISA) at least once"""
    hit = {k for k in total.labels if k.startswith("cell:")}
    n_total = len(supported())
    for k in list(total.labels):
        if k.startswith(("cell:", "mnemonic:")):
            del total.labels[k]
    extra = {"supported_cells_total": n_total, "supported_cells_assembled_and_compared": len(hit)}
    if len(hit) < n_total:
        extra["generator_floor_failures"] = [f"only {len(hit)} of {n_total} supported cells were exercised"]
    return extra


def build_supported() -> list:
    """derive the supported set from the tree as it is now (tools/gen_supported.py freezes it)"""
    cells = set()
    for m in all_mnemonics():
        b = isa.implied(m)
        if b is not None:
            res = driver.assemble_mem("*=0x008000\n" + m + "\n")
            if res.accepted and b"".join(d for _, d in res["blocks"]) == bytes([b]):
                cells.add((m, "imp", None, None, 0))
        for shape in SHAPES:
            if shape[0] == "imp":
                continue
            p, i, o = canon(shape)
            if shape != (p, i, o):
                continue
            for w, v in ((1, 0x12), (2, 0x1234), (3, 0x123456)):
                for sfx in ("", {1: "b", 2: "w", 3: "l"}[w]):
                    exp = expected(m, shape, sfx, v)
                    if exp[0] != "op":
                        continue
                    res = driver.assemble_mem("*=0x008000\n" + render_line(m, shape, sfx, "0x%x" % v, "lower") + "\n")
                    if res.accepted and b"".join(d for _, d in res["blocks"])[:1] == bytes([exp[1]]):
                        cells.add((m, p, i, o, w))
    return sorted(cells, key=lambda c: tuple(str(x) for x in c))
