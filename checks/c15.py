"""C15 — every input terminates (deterministic step budget, never wall-clock)."""
from __future__ import annotations

import itertools
import os
import random
import re

from hypothesis import strategies as st

from vlib import REPO_ROOT, add_repo_to_path, driver, gen, progen, render, watchdog
from vlib.runner import Outcome

add_repo_to_path()

PROPERTY = "C15"
LEVEL = "exploration"
TECHNIQUE = "exhaustive enumeration of all token sequences up to length 3 (quick) / 4 (thorough) over a 46-lexeme alphabet covering every scanner branch, every truncation / single deletion / single duplication of generated valid programs and of the repository's samples, Hypothesis token soup and text soup, and (thorough) coverage-guided atheris fuzzing; oracle = a deterministic step budget linear in the input size"
RULE = (
    "inputs: (1) every sequence of <=3 (quick) / <=4 (thorough) lexemes from the alphabet {lda nop .db .macro .if .for .map .struct .scope .text .include_ips identifier label: numbers ' 's' ;c /* */ { } {{ }} ( ) [ ] # , . .b = := *= @= "
    "+ - * << & | ~ newline space \\\\ \" NUL else}, joined with and without separating spaces; (2) every truncation, single deletion and single duplication, at token and (strided) character granularity, of generated valid programs and of "
    "tests/samples/*.s; (2b) structured programs nesting / chaining 8-64 deep, unbounded macro recursion, loops whose body writes the loop variable or the names its bounds came from; (3) Hypothesis token soup of <=60 lexemes and arbitrary unicode text; (4) thorough: atheris on parse and full assembly.  Oracle: MZParser.parse_as_ast and Program.assemble_string_with_emitter finish (result or any "
    "exception, including RecursionError) within 50,000 + 3,000*len(text) traced line events in a816/ and script/ frames and 20 s + len/500 of CPU time (a bound for work inside C calls, which produce no line events) (measured worst case ~155 events per character), expansion only when the literal loop counts bound it by 5,000 statements (+2,000 events per expanded statement, +4 M when macros are defined: recursion without a terminating condition is ended by the recursion limit).  "
    "Non-trivial = the input ends inside a construct (open comment / string / bracket / brace / macro header) or produces an error; distinct by input text."
)
LEVEL_TEXT = "Exhaustive short-sequence enumeration + mutation enumeration + random and coverage-guided soup under a deterministic watchdog; a budget overrun is the only violation signal, wall-clock expiry is 'inconclusive'."
LEVEL_NOTE = "Trusted: vlib/watchdog.py (self-tested: stops a spinning traced function, ignores untraced code). The budget cannot distinguish a very slow super-linear path from a hang beyond ~19x the measured worst case."
DESIGN_REF = "DESIGN.md §3 C15, §2.7"
ASSUMPTIONS = [".include / .incbin of generated names resolve inside the worker's scratch directory"]

ALPHABET = ["lda", "nop", ".db", ".macro", ".if", ".for", ".map", ".struct", ".scope", ".text", ".include_ips", "foo", "lb:", "5", "0x10", "'", "'s'", ";c", "/*", "*/",
            "{", "}", "{{", "}}", "(", ")", "[", "]", "#", ",", ".", ".b", "=", ":=", "*=", "@=", "+", "-", "*", "<<", "&", "|", "~", "\n", " ", "\\", "\"", "\0", "else", "m("]


def selftest() -> None:
    watchdog.selftest()


def budget(text: str) -> int:
    return 50_000 + 3_000 * len(text)


def expansion_bound(text: str) -> int:
    """crude upper bound of expanded statements from explicit loop counts"""
    # every number of the text can reach a loop bound (through constants, macro arguments, ...) except the target of a
    # `*=` / `@=` line, which is an address and never a count
    relevant = "\n".join(ln for ln in text.split("\n") if not ln.lstrip().startswith(("*=", "@=")))
    nums = [int(x, 16) if x.lower().startswith("0x") else int(x) for x in re.findall(r"0[xX][0-9a-fA-F]+|\d+", relevant)][:200]
    biggest = max(nums + [1])
    loops = text.count(".for")
    if loops == 0:
        return len(text)
    try:
        return min(10 ** 9, (biggest + 1) ** min(loops, 8) * max(1, len(text) // 4))
    except OverflowError:
        return 10 ** 9


def check_text(out: Outcome, text: str, sub, assemble=True, known_bound=None, filename="soup.s"):
    from a816.parse.mzparser import MZParser
    from a816.program import Program

    nt = False
    cpu = 20.0 + len(text) / 500.0  # CPU seconds: the unchanged assembler needs milliseconds for these inputs
    w = watchdog.Watchdog(budget(text), cpu_seconds=cpu)
    with driver.quiet():
        st_, val = w.run(MZParser.parse_as_ast, text, filename)
    out.evals += 1
    if st_ == "budget":
        out.bad("parse:" + _shape(text), sub, f"scan/parse of {len(text)} characters exceeded {budget(text)} line events (no termination in bounded steps): {text[:120]!r}")
        return True
    if st_ == "exception" or (st_ == "ok" and getattr(val, "error", None)):
        nt = True
        assemble = False  # the assembly would repeat exactly this scan / parse and stop at the same error
    if assemble:
        bound = known_bound if known_bound is not None else expansion_bound(text)
        if bound > 5000:
            out.labels.append("assembly-skipped:explicit-loop-counts")
            return nt
        # macro recursion without a terminating condition is ended by the interpreter's recursion limit (a constant):
        # measured worst case ~0.8 M events (scope-chain look-ups grow with the depth), allowance 4 M
        w2 = watchdog.Watchdog(budget(text) + 2000 * bound + (4_000_000 if ".macro" in text else 0), cpu_seconds=cpu + bound / 200.0)

        def run():
            p = Program()
            return p.assemble_string_with_emitter(text, filename, driver.RecordingWriter())

        with driver.quiet():
            st2, val2 = w2.run(run)
        out.evals += 1
        if st2 == "budget":
            out.bad("assemble:" + _shape(text), sub, f"assembly of {len(text)} characters exceeded its step budget {w2.budget}: {text[:120]!r}")
            return True
        if st2 == "exception" or val2 is not None:
            nt = True
    return nt


def structured_inputs(d: int):
    """valid (or nearly valid) programs whose size is linear in d but which nest / chain d deep: work must stay
    within the linear step budget (no exponential or quadratic blow-up in scopes, parentheses, macro chains...)"""
    org = "*=0x008000\nk_out := 5\nlb_out:\n"
    ins = []
    ins.append(("nested-blocks-outer-symbol", org + "{\n" * d + ".db k_out\nlda.w lb_out\n.dl lb_out + k_out\n" + "}\n" * d))
    ins.append(("nested-scopes", org + "".join(f".scope sc_{i} {{\n" for i in range(d)) + ".db k_out\n" + "}\n" * d))
    ins.append(("nested-if", org + ".if k_out {\n" * d + ".db k_out\n" + "}\n" * d))
    ins.append(("nested-for-single-iteration", org + "".join(f".for i_{i} := 0, 1 {{\n" for i in range(d)) + ".db k_out + i_0\n" + "}\n" * d))
    ins.append(("macro-chain", org + ".macro m_0(p) {\n.db p, k_out\n}\n" + "".join(f".macro m_{i}(p) {{\nm_{i - 1}(p + 1)\n}}\n" for i in range(1, d)) + f"m_{d - 1}(1)\n"))
    ins.append(("macro-in-blocks", org + ".macro m_x(p) {\n.db p, k_out\n}\n" + "{\n" * d + "m_x(k_out)\nm_x(lb_out & 0xff)\n" + "}\n" * d))
    ins.append(("deep-parentheses", org + ".dl " + "(" * d + "k_out" + " + 1)" * d + "\n" + "lda.w #" + "(" * d + "1" + ")" * d + "\n"))
    ins.append(("operator-chain", org + ".dl " + " + ".join(["k_out", "lb_out"] * d) + "\n.dl " + "-" * d + "1\n.dl " + " * ".join(["2"] * d) + "\n"))
    ins.append(("unary-chain", org + "lda.w #" + "~" * d + "1\nlda.w #" + "-~" * (d // 2) + "1\n"))
    ins.append(("many-labels-forward-refs", org + "".join(f".dl lb_{(i * 7) % d}\nlb_{i}:\n" for i in range(d))))
    ins.append(("recursive-macro", org + ".macro m_r(p) {\n.if p {\n.db p\nm_r(p - 1)\n}\n}\n" + f"m_r({d})\n"))
    # unbounded macro recursion: only the interpreter's recursion limit ends it, as a reported failure
    for cond in (None, "k_out", "1", "k_out - 4", "lb_out"):
        for calls in (1, 2, 3):
            body = "m_u()\n" * calls
            if cond is not None:
                body = f".if {cond} {{\n{body}}}\n"
            ins.append((f"unbounded-recursion:{cond}:{calls}", org + ".macro m_u() {\n.db 1\n" + body + "}\nm_u()\n"))
    ins.append(("mutual-recursion", org + ".macro m_p() {\n.if k_out {\nm_q()\nm_q()\n}\n}\n.macro m_q() {\nm_p()\n}\n.macro m_p() {\n.if k_out {\nm_q()\nm_q()\n}\n}\nm_p()\n"))
    # loop bodies that write the loop variable or the names its bounds were taken from: the iteration count stays the
    # one the bounds gave when the loop was reached
    n_it = max(2, min(d, 6))
    for j, body in enumerate(("i_v := 0", "i_v := i_v - 1", "i_v := i_v & 1", "i_v = 0", "{\ni_v := 0\n}", ".if 1 {\ni_v := 0\n}", ".if i_v {\ni_v := i_v - 1\n}",
                              "k_hi := k_hi + 1", "k_lo := k_lo - 1", "i_v := k_hi - 2", ".for i_v := 0, 2 {\ni_v := 0\n}", "m_w(i_v)")):
        ins.append((f"loop-writes-its-variable:{j}:bound={3 * n_it * 8}", org + f"k_lo := 0\nk_hi := {n_it}\n.macro m_w(p) {{\np := 0\ni_v := 0\n}}\n.for i_v := k_lo, k_hi {{\n{body}\n.db i_v\n}}\n"))
    # .text without any table, at every kind of nesting: a reported error, whatever the depth
    ins.append(("text-no-table-nested-blocks", org + "{\n" * d + ".text 'abc'\n" + "}\n" * d))
    ins.append(("text-no-table-nested-scopes", org + "".join(f".scope st_{i} {{\n" for i in range(min(d, 24))) + ".text 'abc'\n" + "}\n" * min(d, 24)))
    ins.append(("text-no-table-macro-in-scope", org + ".macro m_t() {\n.text 'abc'\n}\n.scope st_m {\n{\nm_t()\n}\n}\n"))
    ins.append(("text-no-table-loop", org + ".for i_t := 0, 2 {\n{\n.text 'abc'\n}\n}\n"))
    ins.append(("text-no-table-if", org + ".if 1 {\n{\n{\n.text 'abc'\n}\n}\n}\n"))
    # .text with a table (t15.tbl is written into the scratch directory by the structured unit): escapes of every length,
    # terminated or not -- the encoder's work must stay proportional to the string
    for n in (2, 8, 30, 64, 200):
        ins.append((f"text-escape-unterminated:{n}", org + ".table 't15.tbl'\n.text 'ab[0x" + "a1" * (n // 2) + "'\n"))
        ins.append((f"text-escape-long:{n}", org + ".table 't15.tbl'\n.text 'ab[0x" + "a1" * (n // 2) + "]b'\n"))
    ins.append(("text-many-open-brackets", org + ".table 't15.tbl'\n.text '" + "[0x" * d + "'\n"))
    ins.append(("text-long-string", org + ".table 't15.tbl'\n.text '" + "abc[0x41]" * (4 * d) + "'\n"))
    # patch files that end early (no EOF footer, cut inside a header / a size / the data, header only, empty): reported, never read forever
    for nm in ("cut_header_only.ips", "cut_after_record.ips", "cut_in_offset.ips", "cut_in_size.ips", "cut_in_data.ips", "cut_in_rle.ips", "empty.ips"):
        ins.append((f"short-ips:{nm}", org + f".db 1\n.include_ips '{nm}', 0\n.db 2\n"))
    # existing files with names that are not identifiers (digits, hyphens, blanks, dots): whatever name is derived from them
    for nm in ODD_NAMES:
        ins.append((f"odd-file-name:{nm}", org + f".db 1\n.incbin '{nm}'\n.db 2\n"))
        ins.append((f"odd-file-name-included:{nm}", org + f".db 1\n.include '{nm}'\n.db 2\n"))
    for where in ("relative", "nested", "absolute"):
        for j, d_ in enumerate((".include 'no_such_file_zz.s'", ".incbin 'no_such_file_zz.bin'", ".table 'no_such_file_zz.tbl'", ".include_ips 'no_such_file_zz.ips', 0",
                                ".include 'sub/dir/no_such_file_zz.s'", ".include '../no_such_file_zz.s'")):
            ins.append((f"missing-file:{where}|{j}", org + d_ + "\n.db 1\n"))
    ins.append(("struct-with-comments", org + ".struct st_x {\n" + "; c\n" * d + "}\n"))
    ins.append(("struct-empty", org + ".struct st_y {\n}\n.struct st_z {\n/* c */\n}\n"))
    ins.append(("struct-unclosed", org + ".struct st_w {\n; c\n" * min(d, 8)))
    ins.append(("map-many", ".map identifier=1 bank_range=0x00, 0x3f addr_range=0x8000, 0xffff mask=0x8000\n" * d + "*=0x008000\n.db 1\n"))
    ins.append(("unbalanced-open", org + "{\n" * d + ".db 1\n"))
    ins.append(("unbalanced-close", org + ".db 1\n" + "}\n" * d))
    ins.append(("comment-run", org + "/* a */\n" * d + "; c\n" * d + "nop ; x\n" * d))
    ins.append(("string-with-escapes", org + ".ascii '" + "\\'" * d + "'\n.text '" + "a" * d + "\n"))
    # block arguments that splice themselves (the argument is expanded inside the application, where the parameter names the
    # argument itself), directly, through a second parameter, and with other statements around: a reported failure, not a spin
    ins.append(("self-splicing-argument", org + ".macro m_w(p_b) {\n{{p_b}}\n}\nm_w({\n{{p_b}}\n})\n"))
    ins.append(("self-splicing-argument-with-code", org + ".macro m_w(p_b) {\n.db 1\n{{p_b}}\n}\nm_w({\n.db 2\n{{p_b}}\n.db 3\n})\n"))
    ins.append(("mutually-splicing-arguments", org + ".macro m_w(p_b, p_c) {\n{{p_b}}\n}\nm_w({\n{{p_c}}\n}, {\n{{p_b}}\n})\n"))
    ins.append(("self-splicing-argument-in-include", org + ".macro m_w(p_b) {\n{{p_b}}\n}\nm_w({\n.include 'splice15.s'\n})\n"))
    ins.append(("nested-code-arguments", org + ".macro m_c(p) {\n{{p}}\n}\n" + "m_c({\n" * min(d, 20) + ".db k_out\n" + "})\n" * min(d, 20)))
    return ins


ODD_NAMES = ["2024", "7", "-", "1-2", "007", "_", "9.bin", "-x.bin", "a b.bin", "(1)", "x.", "..bin"]


def _stage_aux() -> None:
    """the files the structured inputs refer to (written into the worker's scratch directory)"""
    rec = b"\x02\x00\x00\x00\x03abc"
    files = {"t15.tbl": "01=a\n02=b\n03=ab\n0405=abc\n",
             "cut_header_only.ips": {"hex": b"PATCH".hex()}, "cut_after_record.ips": {"hex": (b"PATCH" + rec).hex()},
             "cut_in_offset.ips": {"hex": (b"PATCH" + rec + b"\x02\x00").hex()}, "cut_in_size.ips": {"hex": (b"PATCH" + rec + b"\x02\x00\x10\x00").hex()},
             "cut_in_data.ips": {"hex": (b"PATCH" + rec[:-1]).hex()}, "cut_in_rle.ips": {"hex": (b"PATCH" + b"\x02\x00\x00\x00\x00\x00").hex()},
             "empty.ips": {"hex": ""}}
    for nm in ODD_NAMES:
        files[nm] = {"hex": "a1b2c3"}
    files["splice15.s"] = "{{p_b}}\n"

    driver.write_files(files)


def _shape(text: str) -> str:
    """root-cause key: which construct is open at the end of the input"""
    t = text
    if "/*" in t and "*/" not in t[t.index("/*") + 2:]:
        return "open-block-comment"
    if t.count("'") % 2 == 1:
        return "open-string"
    if t.count("{") > t.count("}"):
        return "open-brace"
    if t.count("(") > t.count(")"):
        return "open-paren"
    if ".macro" in t:
        return "macro"
    if ".for" in t:
        return "for"
    return "other"


def _open_ended(text: str) -> bool:
    return _shape(text) in ("open-block-comment", "open-string", "open-brace", "open-paren")


# ---- enumeration -----------------------------------------------------------------------------------------------------

def enum_units(tier, seed):
    n = len(ALPHABET)
    units = []
    maxlen = 3 if tier == "quick" else 4
    if maxlen <= 3:
        for first in range(n):
            units.append({"t": "tokens", "prefix": [first], "maxlen": maxlen})
    else:
        # units small enough to finish well inside the per-case wall-clock backstop (which only marks "inconclusive")
        units.append({"t": "tokens", "prefix": [], "maxlen": 1})
        for first in range(n):
            for second in range(n):
                units.append({"t": "tokens", "prefix": [first, second], "maxlen": maxlen})
    units.append({"t": "samples", "tier": tier})
    for depth in ((8, 16, 24, 32) if tier == "quick" else (8, 16, 24, 32, 48, 64)):
        units.append({"t": "structured", "depth": depth})
    return {"units": units, "exhaustive": True}


def unit_cases(unit):
    yield unit


def hyp_plan(tier):
    q = tier == "quick"
    return [{"profile": "soup", "n": 1500 if q else 60000}, {"profile": "text", "n": 500 if q else 20000}, {"profile": "mutants", "n": 24 if q else 1200}]


def hyp_examples(tier):
    return 0


SHARD_MIN = 2


def custom_units(tier, seed):
    """coverage-guided campaign (thorough tier only): empty corpus and the committed seed corpus, several libFuzzer seeds"""
    if tier != "thorough":
        return []
    units = []
    for i in range(8):
        units.append({"fuzz": "fuzz_c15.py", "runs": 40000, "seed": seed * 100 + i + 1, "corpus": None if i % 2 == 0 else "corpus_c15"})
    return units


def run_custom(payload, tier, seed, acc):
    from vlib import VERIF_ROOT
    from vlib.runner import run_atheris

    corpus = os.path.join(VERIF_ROOT, "fuzz", payload["corpus"]) if payload["corpus"] else None
    done, bad, note = run_atheris(payload["fuzz"], payload["runs"], payload["seed"], corpus, 192)
    out = Outcome(evals=done, nontrivial=0, labels=["atheris:" + (note or ("seed-corpus" if corpus else "empty-corpus"))])
    out.sample = {"atheris": payload, "executions": done, "note": note}
    for data in bad:
        text = data.decode("utf-8", "replace")
        check_text(out, text, {"t": "text", "text": text})
    if done == 0 and not note:
        out.skip = "atheris produced no executions"
    acc.add(payload, out)


def _mutant_case(rng):
    case = progen.generate(rng, progen.Profile(max_stmts=8, big_incbin=False, incbin=False, reloc_ram=False))
    src, inc, _ = render.render(case["ir"], render.Layout(random.Random(rng.randint(0, 1 << 30)), knobs=["blank", "indent", "linecomment", "eolcomment", "blockcomment"]))
    return {"t": "mutants", "text": src, "files": inc, "stride": rng.randint(0, 6)}


def strategy(tier, profile="soup"):
    if profile == "soup":
        return st.lists(st.sampled_from(ALPHABET), min_size=1, max_size=60).flatmap(
            lambda toks: st.booleans().map(lambda sp: {"t": "text", "text": (" " if sp else "").join(toks)}))
    if profile == "text":
        return st.text(max_size=200).map(lambda s: {"t": "text", "text": s})
    return gen.seeded(_mutant_case)


_TOKEN = re.compile(r"\s+|[A-Za-z_][A-Za-z0-9_.]*:?|0x[0-9a-fA-F]+|\d+|'[^'\n]*'?|/\*|\*/|<<|>>|:=|\*=|@=|\{\{|\}\}|.", re.S)


def mutations(text: str, stride: int, char_level=True):
    """every truncation, single deletion and single duplication at token granularity, and at character
    granularity for every 7th position starting at `stride`"""
    toks = _TOKEN.findall(text)
    seen = set()

    def emit(s):
        if s not in seen:
            seen.add(s)
            return True
        return False

    acc = ""
    for i in range(len(toks)):
        cand = [acc, "".join(toks[:i] + toks[i + 1:]), "".join(toks[:i + 1] + toks[i:])]
        acc += toks[i]
        for c in cand:
            if emit(c):
                yield c
    if char_level:
        for i in range(stride % 7, len(text), 7):
            for c in (text[:i], text[:i] + text[i + 1:], text[:i + 1] + text[i:]):
                if emit(c):
                    yield c


def run_case(case) -> Outcome:
    t = case["t"]
    out = Outcome(evals=0, nontrivial=0, labels=[])
    if t == "tokens":
        prefix = tuple(ALPHABET[i] for i in case["prefix"])
        first = " ".join(prefix) if prefix else "<any>"
        nt = 0
        n = 0
        for L in range(max(1, len(prefix)), case["maxlen"] + 1):
            for rest in itertools.product(ALPHABET, repeat=L - len(prefix)):
                toks = prefix + rest
                for sep in ("", " "):
                    if sep == " " and L == 1:
                        continue
                    text = sep.join(toks)
                    n += 1
                    full = L <= 2 or sep == " " or case["maxlen"] > 3 and L == 3
                    if check_text(out, text, {"t": "text", "text": text}, assemble=full):
                        nt += 1
        out.nontrivial = nt
        out.labels.append(f"tokens:len<={case['maxlen']}")
        out.sample = {"prefix": first, "sequences": n, "example": " ".join((first, "/*", "'"))}
        return out
    if t == "samples":
        sdir = os.path.join(REPO_ROOT, "tests", "samples")
        nt = 0
        for fn in sorted(os.listdir(sdir)) if os.path.isdir(sdir) else []:
            if not fn.endswith(".s"):
                continue
            with open(os.path.join(sdir, fn), encoding="utf-8") as f:
                text = f.read()
            for m in mutations(text, 0, char_level=True):
                if check_text(out, m, {"t": "text", "text": m}):
                    nt += 1
        out.nontrivial = nt
        out.labels.append("sample-mutants")
        out.sample = {"repository samples": "every truncation / deletion / duplication"}
        return out
    if t == "structured":
        nt = 0
        _stage_aux()
        deep_dir = os.path.join(driver.workdir(), "a", "b", "c", "d")
        for name, text in structured_inputs(case["depth"]):
            kb = int(name.rsplit("bound=", 1)[1]) if "bound=" in name else None  # iteration count known by construction
            # files that are looked for and not found: the source may be known under a relative, a nested or an absolute name
            fn = {"missing-file:relative": "soup.s", "missing-file:nested": "a/b/c/soup.s", "missing-file:absolute": os.path.join(deep_dir, "soup.s")}.get(name.split("|")[0], "soup.s")
            if check_text(out, text, {"t": "text", "text": text, "known_bound": kb, "filename": fn}, known_bound=kb, filename=fn):
                nt += 1
            nt += 0
        # writing the output is part of the run: blocks that end on / start at / cross the offset whose three bytes spell the IPS end
        # marker (0x454F46, reachable with a wide .map), and the last byte of the 16 MiB space, through the patch and the image writer
        from vlib import watchdog as _wd

        wide = ".map identifier=1 bank_range=0x00, 0xff addr_range=0x0000, 0xffff mask=0x10000\n"
        for a, n in ((0x454F45, 1), (0x454F44, 2), (0x454F46, 1), (0x454F44, 5), (0x454F47, 3), (0x454D45, 1), (0x454D44, 4), (0xFFFFFE, 2), (0x454F46 - 0xFFFF, 0x10000), (0x454F46 - 0x10000, 0x10000)):
            body = (".db " + ", ".join(["0x5a"] * n) + "\n") if n <= 8 else ".incbin 'big15.bin'\n"
            srcw = wide + f"*=0x{a:06x}\n" + body
            for fmt, cop in (("ips", False), ("ips", True), ("sfc", False)):
                if fmt == "sfc" and a > 0x500000:
                    continue
                files_w = {"big15.bin": {"pat": [3, n]}} if n > 8 else None
                st_, val = _wd.Watchdog(400_000, cpu_seconds=30.0).run(driver.assemble_file_api, srcw, fmt=fmt, mapping=None, copier=cop, files=files_w)
                out.evals += 1
                if st_ == "budget":
                    out.bad(f"output:{fmt}:no-termination", {"t": "text", "text": srcw}, f"writing {n} byte(s) at offset {a:#x} as {fmt}{' with copier header' if cop else ''} did not finish ({val})\n{srcw}")
        out.nontrivial = len(structured_inputs(case["depth"]))
        out.labels.append("structured-deep")
        out.sample = {"depth": case["depth"], "kinds": [n for n, _ in structured_inputs(case["depth"])]}
        return out
    if t == "text":
        text = case["text"]
        if ".inc" in text or ".table" in text:
            _stage_aux()
        nt = check_text(out, text, case, known_bound=case.get("known_bound"), filename=case.get("filename", "soup.s"))
        out.nontrivial = bool(nt) or _open_ended(text)
        out.labels.append("soup")
        if _open_ended(text):
            out.labels.append("open-ended")
        out.sample = {"text": text[:160]}
        return out
    if t == "mutants":
        paths = driver.write_files(case.get("files"))
        try:
            nt = 0
            k = 0
            for m in mutations(case["text"], case["stride"]):
                k += 1
                if check_text(out, m, {"t": "text", "text": m}):
                    nt += 1
        finally:
            driver.remove_files(paths)
        out.nontrivial = nt
        out.labels.append("program-mutants")
        out.sample = {"program": case["text"].splitlines()[:10], "mutants": k}
        return out
    raise ValueError(t)
