"""C05 — relative branches encode the true displacement or are rejected."""
from __future__ import annotations

from vlib import add_repo_to_path, driver
from vlib.model import busmodel, isa
from vlib.runner import Outcome

add_repo_to_path()

PROPERTY = "C05"
LEVEL = "exploration"
TECHNIQUE = "exhaustive enumeration of branch mnemonic x displacement -140..+140 x target form x window placement x relocation x mapping against the ISA opcode and the arithmetic displacement"
RULE = (
    "programs `*=S` [`@=R`] label/padding/branch built so that target - (branch+2) = d for every d in -140..140 (quick: 2 mnemonics over the full range, the others at "
    "-129,-128,-1,0,127,128) and for far same-bank displacements (+-0x100, 0x200, 0x1000, 0x4000, half a window, a window minus 0x100, a whole window, each +-{0..3,126..130}), target given as backward label / forward label / numeric address, placements {mid-window, branch on the last two bytes of the window, target on "
    "the first byte, target on the last byte}, relocation {none, @= to a ROM address in another bank, @= to RAM with ROM or RAM target, ROM branch to a RAM address, position moved into RAM with *= (after ROM code or after an @= to RAM)}, primary and mirror bank ranges, LoROM and "
    "HiROM.  Oracle: same bank + both in-window ROM: -128<=d<=127 => accepted with [opcode, d&0xFF]; else rejected; RAM run address or RAM target => rejected.  "
    "Non-trivial = |d| in 126..130, or a window-edge placement, or any @= / RAM case; distinct by construction."
)
LEVEL_TEXT = "Complete enumeration of the displacement range, every branch mnemonic, target forms, window-edge placements and relocation modes under both ROM mappings, against an arithmetic oracle."
LEVEL_NOTE = "Trusted: ISA opcode bytes of vlib/model/isa.py and integer arithmetic. Cross-bank and out-of-window targets are outside the statement (not generated). Mnemonics the assembler does not know (bvc/bvs at the pinned commit) may be rejected."
DESIGN_REF = "DESIGN.md §3 C05"
ASSUMPTIONS = ["the seven branch mnemonics of the pinned table must keep assembling in-range branches"]

MUST_ASSEMBLE = ["bcc", "bcs", "beq", "bmi", "bne", "bpl", "bra"]
KEY_D = [-129, -128, -1, 0, 127, 128]
PLACES = ["mid", "branch-at-end", "target-at-start", "target-at-end", "rom-start"]
TARGETS = ["back", "fwd", "num"]
RELOCS = ["none", "rom", "ram-both", "ram-branch", "ram-target", "star-ram"]


def selftest() -> None:
    isa.selftest()
    assert isa.BY_KEY[("bra", "rel8")] == 0x80 and isa.BY_KEY[("bne", "rel8")] == 0xD0


def branch_mnemonics() -> list[str]:
    from a816.cpu.cpu_65c816 import RelativeJumpOpcode, snes_opcode_table

    found = set()
    for m, modes in snes_opcode_table.items():
        for v in modes.values():
            if isinstance(v, RelativeJumpOpcode):
                found.add(m)
    return sorted(found | set(isa.BRANCHES8))


def build(case):
    """-> (source, rom, expectation) or None when the combination is outside the statement.
    expectation: ('enc', opcode, d, where) | ('reject', why)"""
    m, rom, d, tgt, place, reloc = case["m"], case["rom"], case["d"], case["tgt"], case["place"], case["reloc"]
    model = busmodel.builtin(rom)
    r = model.rom_ranges()[case.get("mirror", 0)]
    bank = (r.first + 2) << 16
    lo, hi = bank | r.win_lo, bank | r.win_hi
    opcode = isa.BY_KEY.get((m, "rel8"))
    # choose the branch address B (run address)
    if tgt == "back" and d > -2:
        return None
    if tgt == "fwd" and d < 0:
        return None
    if place == "far":
        # a same-bank branch whose true displacement is far out of range (up to a whole window): it must be rejected,
        # never wrapped modulo 256 / the window size
        B = (hi - 1) if d < 0 else lo
        if tgt == "fwd" or tgt == "back":
            T = B + 2 + d
            if not (lo <= T <= hi):
                return None
            if reloc != "none":
                return None
            # the label lives in another *= block of the same bank
            src = f"*=0x{T:06x}\ntg:\n.db 0x60\n*=0x{B:06x}\n{m} tg\n" if tgt == "back" else f"*=0x{B:06x}\n{m} tg\n*=0x{T:06x}\ntg:\n.db 0x60\n"
            return src, rom, ("reject", "out of range")
    if place == "far":
        pass
    elif place == "rom-start":
        # the very first ROM address (file offset 0), reached by a second *= / by @= after other output
        bank = r.first << 16
        lo, hi = bank | r.win_lo, bank | r.win_hi
        B = lo - d - 2 if d <= -2 else lo
    elif place == "mid":
        B = bank | ((r.win_lo + r.win_hi + 1) // 2 + 0x123)
    elif place == "branch-at-end":
        B = hi - 1
    elif place == "target-at-start":
        B = lo - d - 2
    else:
        B = hi - d - 2
    T = B + 2 + d
    if not (lo <= B and B + 1 <= hi and lo <= T <= hi):
        return None
    other = ((r.first + 5) << 16) | r.win_lo | 0x100  # storage position when relocated
    ram = 0x7E2000
    pad = lambda n: (".db " + ", ".join(["0xea"] * n) + "\n") if n > 0 else ""
    S = T if tgt == "back" else B  # where the emitted run starts
    if reloc in ("none", "rom"):
        head = f"*=0x{S:06x}\n" if reloc == "none" else f"*=0x{other:06x}\n@=0x{S:06x}\n"
        if place == "rom-start":
            head = f"*=0x{other + 0x40:06x}\n.db 0xea, 0xea\n" + head
        if tgt == "back":
            src = head + "tg:\n" + pad(B - T) + f"{m} tg\n"
            where = "last2"
        elif tgt == "fwd":
            src = head + f"{m} tg\n" + pad(T - B - 2) + "tg:\n.db 0x60\n"
            where = "first2"
        else:
            src = head + f"{m} 0x{T:06x}\n"
            where = "first2"
        if -128 <= d <= 127:
            return src, rom, ("enc", opcode, d, where)
        return src, rom, ("reject", "out of range")
    if abs(d) > 100 and reloc.startswith("ram"):
        return None
    if reloc == "ram-both":
        # branch and target both run in RAM
        RB = ram + (B - S)
        if tgt == "back":
            src = f"*=0x{other:06x}\n@=0x{ram:06x}\ntg:\n" + pad(B - T) + f"{m} tg\n"
        elif tgt == "fwd":
            src = f"*=0x{other:06x}\n@=0x{ram:06x}\n{m} tg\n" + pad(T - B - 2) + "tg:\n.db 0x60\n"
        else:
            src = f"*=0x{other:06x}\n@=0x{ram:06x}\n{m} 0x{ram + 2 + d if ram + 2 + d >= 0x7E0000 else ram:06x}\n"
        return src, rom, ("reject", "branch and target in RAM")
    if reloc == "ram-branch":
        # target is a ROM label / address, the branch itself runs from RAM; storage is contiguous so
        # the *storage* displacement would be in range -- it must not be used
        if tgt == "fwd":
            return None
        if tgt == "back":
            if d < -120:
                return None
            src = f"*=0x{S:06x}\ntg:\n" + pad(max(0, B - T - 1)) + f"@=0x{ram:06x}\n.db 0xea\n{m} tg\n"
        else:
            src = f"*=0x{B:06x}\n@=0x{ram:06x}\n{m} 0x{T:06x}\n"
        return src, rom, ("reject", "branch runs from RAM")
    if reloc == "star-ram":
        # the position was moved into RAM with `*=` (directly, or after an `@=` to RAM): the branch has no ROM run address
        if tgt == "fwd":
            return None
        pre = f"@=0x{ram + 0x100:06x}\n.db 0xea\n" if (d & 1) else ""
        if tgt == "back":
            if d < -120:
                return None
            src = f"*=0x{S:06x}\ntg:\n" + pad(max(0, B - T - 1)) + pre + f"*=0x{ram:06x}\n{m} tg\n"
        else:
            src = f"*=0x{B:06x}\n.db 0xea\n" + pre + f"*=0x{ram:06x}\n{m} 0x{T:06x}\n"
        return src, rom, ("reject", "position moved into RAM")
    if reloc == "ram-target":
        if tgt != "num":
            return None
        src = f"*=0x{B:06x}\n{m} 0x{ram + (d & 0xFF):06x}\n"
        return src, rom, ("reject", "target in RAM")
    raise ValueError(reloc)


def check_one(out: Outcome, case) -> bool:
    built = build(case)
    if built is None:
        return False
    src, rom, exp = built
    res = driver.assemble_mem(src, rom=rom)
    m = case["m"]
    tag = f"{case['tgt']}:{case['place']}:{case['reloc']}"
    if exp[0] == "enc":
        _, opcode, d, where = exp
        if not res.accepted:
            if m in MUST_ASSEMBLE:
                out.bad(f"inrange-rejected:{m}:{case['reloc']}:{case['tgt']}", case,
                        f"{rom}: in-range branch (d={d}) rejected: {res['status']} {res['exc']} {res.failure_text[:200]}\n{src}")
            return True
        blocks = res["blocks"][1:] if case["place"] == "rom-start" else res["blocks"]  # skip the two filler bytes written first
        flat = b"".join(dd for _, dd in blocks)
        got = flat[-2:] if where == "last2" else flat[:2]
        want = bytes([opcode, d & 0xFF])
        if got != want:
            kind = "wrong-opcode" if got[:1] != want[:1] else "wrong-displacement"
            out.bad(f"{kind}:{case['reloc']}:{case['tgt']}", case, f"{rom}: branch encoded as {got.hex()}, expected {want.hex()} (d={d})\n{src}")
        return True
    # must be rejected
    if res.accepted:
        flat = b"".join(dd for _, dd in res["blocks"])
        out.bad(f"accepted-{exp[1].replace(' ', '-')}:{case['tgt']}", case,
                f"{rom}: branch must be rejected ({exp[1]}, d={case['d']}) but assembled: {flat[-6:].hex()}\n{src}")
    return True


def check_suffixed(out: Outcome, sub) -> None:
    m, rom, sfx, d = sub["m"], sub["rom"], sub["sfx"], sub["d"]
    model = busmodel.builtin(rom)
    r = model.rom_ranges()[0]
    S = ((r.first + 1) << 16) | (r.win_lo + 0x200)
    opcode = isa.BY_KEY.get((m, "rel8"))
    pad = lambda n: (".db " + ", ".join(["0xea"] * n) + "\n") if n > 0 else ""
    if d <= -2:
        src = f"*=0x{S:06x}\ntg:\n" + pad(-d - 2) + f"{m}.{sfx} tg\nlb_after:\n.dl lb_after\n"
        n_before = -d - 2
    else:
        src = f"*=0x{S:06x}\n{m}.{sfx} tg\n" + pad(d) + "tg:\nlb_after:\n.dl lb_after\n"
        n_before = 0
    res = driver.assemble_mem(src, rom=rom)
    if not res.accepted:
        return  # a suffix on a branch may be refused
    flat = b"".join(dd for _, dd in res["blocks"])
    after = S + (n_before + 2 if d <= -2 else 2 + d)
    want = bytes([0xEA] * n_before + [opcode, d & 0xFF]) + (bytes([0xEA] * d) if d > 0 else b"") + after.to_bytes(3, "little")
    if flat != want or dict(res["labels"]).get("lb_after") != after:
        out.bad(f"suffixed:{'layout' if flat[:len(want) - 3] == want[:-3] else 'bytes'}", sub,
                f"{rom}: `{m}.{sfx}` (displacement {d}) emitted {flat[-8:].hex()} with lb_after={dict(res['labels']).get('lb_after')}, expected {want[-8:].hex()} / {after:#x}\n{src[:200]}")


def check_deep(out: Outcome, sub) -> None:
    m, rom, depth = sub["m"], sub["rom"], sub["depth"]
    model = busmodel.builtin(rom)
    r = model.rom_ranges()[0]
    S = ((r.first + 1) << 16) | (r.win_lo + 0x100)
    kinds = ["{", ".scope sc_%d {", ".if 1 {", ".for i_%d := 0, 1 {"]
    opens = "".join((kinds[(i * 7 + depth) % 4] % i if "%d" in kinds[(i * 7 + depth) % 4] else kinds[(i * 7 + depth) % 4]) + "\n" for i in range(depth - 1))
    src = (f"*=0x{S:06x}\nagain:\n.db 0xea, 0xea, 0xea\n{{\nagain:\nnop\n" + opens + f"{m} again\n" + "}\n" * (depth - 1) + "}\n")
    res = driver.assemble_mem(src, rom=rom)
    opcode = isa.BY_KEY.get((m, "rel8"))
    if not res.accepted:
        if m in MUST_ASSEMBLE:
            out.bad(f"deep:rejected:{m}", sub, f"{rom}: branch to a label {depth} scope levels up rejected: {res['status']} {res['exc']} {res.failure_text[:160]}\n{src[:300]}")
        return
    flat = b"".join(dd for _, dd in res["blocks"])
    want = bytes([0xEA] * 4 + [opcode, 0xFD])  # 3 filler bytes, nop, branch back over the nop to the inner label
    if flat != want:
        out.bad("deep:wrong-displacement", sub, f"{rom}: branch to the label defined {depth} scope levels up (a same-named label exists at the top level) "
                f"emitted {flat.hex()}, expected {want.hex()}\n{src[:300]}")


def check_otherbank(out: Outcome, sub) -> None:
    """The target sits in another bank of the same ROM range, at an in-bank position within -128..+127 of the branch: its true
    distance is whole banks, so it is rejected -- the bank byte of the target is never dropped."""
    m, rom, db, d, tgt = sub["m"], sub["rom"], sub["db"], sub["d"], sub["tgt"]
    model = busmodel.builtin(rom)
    r = model.rom_ranges()[0]
    B = ((r.first + 3) << 16) | (r.win_lo + 0x400)
    T = B + 2 + d + (db << 16)
    if tgt == "num":
        src = f"*=0x{B:06x}\n{m} 0x{T:06x}\n"
    elif tgt == "fwd":
        src = f"*=0x{B:06x}\n{m} tg\n*=0x{T:06x}\ntg:\n.db 0x60\n"
    else:
        src = f"*=0x{T:06x}\ntg:\n.db 0x60\n*=0x{B:06x}\n{m} tg\n"
    res = driver.assemble_mem(src, rom=rom)
    if res.accepted:
        flat = b"".join(dd for _, dd in res["blocks"])
        out.bad(f"accepted-other-bank:{tgt}", sub, f"{rom}: branch at {B:#08x} to {T:#08x} ({db:+d} banks away) must be rejected but assembled: {flat.hex()}\n{src}")


def check_flow(out: Outcome, sub) -> None:
    """Code that runs on past the last byte of a ROM range without any *= / @= : the assembler gives what follows a run address in
    the next bank (RAM under HiROM, nothing under LoROM); a branch assembled there has no ROM run address and is rejected."""
    m, rom, lead, k = sub["m"], sub["rom"], sub["lead"], sub["k"]
    model = busmodel.builtin(rom)
    for r in model.rom_ranges():
        last = r.first + model.range_bytes(r) // r.size - 1  # (a RAM range may shadow the top banks of the range)
        if last + 1 > 0xFF or model.kind(((last + 1) << 16) | 0x8000) == "rom":
            continue
        B = (last << 16) | (r.win_hi - 3)
        head = f"*=0x{B:06x}\n" if lead == "org" else f"*=0x{(r.first << 16) | r.win_lo | 0x100:06x}\n@=0x{B:06x}\n"
        src = head + "tg:\n" + "nop\n" * (4 + k) + f"{m} tg\n"
        res = driver.assemble_mem(src, rom=rom)
        if res.accepted:
            flat = b"".join(dd for _, dd in res["blocks"])
            out.bad(f"accepted-beyond-the-rom-range:{lead}", sub, f"{rom}: the branch stands {k + 1} byte(s) past the end of banks {r.first:#04x}..{last:#04x} (labels: {dict(res['labels'])}) "
                    f"but was assembled: {flat.hex()}\n{src}")


def check_twice(out: Outcome, sub) -> None:
    """Two routines that run at the same address (@=X ... @=X, or *=X again after other output): the second one's branch is
    encoded from the run address it was given, like the first one's."""
    m, rom, lead, n1, n2 = sub["m"], sub["rom"], sub["lead"], sub["n1"], sub["n2"]
    model = busmodel.builtin(rom)
    r = model.rom_ranges()[0]
    S = ((r.first + 1) << 16) | r.win_lo
    X_ = ((r.first + 2) << 16) | (r.win_lo + 0x40)
    opcode = isa.BY_KEY.get((m, "rel8"))
    if lead == "reloc":
        src = f"*=0x{S:06x}\n@=0x{X_:06x}\nta:\n" + "nop\n" * n1 + f"{m} ta\n@=0x{X_:06x}\ntb:\n" + "nop\n" * n2 + f"{m} tb\n"
    else:
        src = f"*=0x{X_:06x}\nta:\n" + "nop\n" * n1 + f"{m} ta\n*=0x{S:06x}\n.db 0x60\n*=0x{X_:06x}\ntb:\n" + "nop\n" * n2 + f"{m} tb\n"
    res = driver.assemble_mem(src, rom=rom)
    if not res.accepted:
        if m in MUST_ASSEMBLE:
            out.bad(f"twice:rejected:{lead}", sub, f"{rom}: rejected: {res['status']} {res['exc']} {res.failure_text[:160]}\n{src}")
        return
    flat = b"".join(dd for _, dd in res["blocks"])
    first = bytes([0xEA] * n1 + [opcode, (-(n1 + 2)) & 0xFF])
    second = bytes([0xEA] * n2 + [opcode, (-(n2 + 2)) & 0xFF])
    want = first + second if lead == "reloc" else first + b"\x60" + second
    if flat != want:
        out.bad(f"twice:wrong-displacement:{lead}", sub, f"{rom}: emitted {flat.hex()}, expected {want.hex()}\n{src}")


def check_ram_small(out: Outcome, sub) -> None:
    """A branch that runs from RAM is rejected whatever its target is written as -- also a small bare number (which is an address
    like any other operand, never a ready-made displacement)."""
    m, rom, v, lead = sub["m"], sub["rom"], sub["v"], sub["lead"]
    model = busmodel.builtin(rom)
    r = model.rom_ranges()[0]
    S = ((r.first + 1) << 16) | (r.win_lo + 0x100)
    src = (f"*=0x{S:06x}\n@=0x7e2000\n" if lead == "reloc" else f"*=0x{S:06x}\n.db 0xea\n*=0x7e2000\n") + f"nop\n{m} {v}\n"
    res = driver.assemble_mem(src, rom=rom)
    if res.accepted:
        flat = b"".join(dd for _, dd in res["blocks"])
        out.bad(f"accepted-branch-runs-from-RAM:small-number:{lead}", sub, f"{rom}: `{m} {v}` in code that runs at 0x7e2001 must be rejected but assembled: {flat.hex()}\n{src}")


def enum_units(tier, seed):
    units = []
    for rom in ("low", "high"):
        for i, m in enumerate(branch_mnemonics()):
            full = tier == "thorough" or i == (seed % 7) or i == ((seed + 3) % 7)
            units.append({"t": "mn", "m": m, "rom": rom, "full": full})
    return {"units": units, "exhaustive": tier == "thorough"}


def unit_cases(unit):
    yield unit


def run_case(case) -> Outcome:
    if case.get("t") == "mn":
        out = Outcome(evals=0, nontrivial=0)
        ds = list(range(-140, 141)) if case["full"] else KEY_D
        ev = nt = 0
        for d in ds:
            for tgt in TARGETS:
                for place in PLACES:
                    for reloc in RELOCS:
                        for mirror in (0, 1):
                            if mirror and not (case["full"] or d in KEY_D):
                                continue
                            sub = {"m": case["m"], "rom": case["rom"], "d": d, "tgt": tgt, "place": place, "reloc": reloc, "mirror": mirror}
                            if check_one(out, sub):
                                ev += 1
                                if 126 <= abs(d) <= 130 or place != "mid" or reloc != "none" or mirror:
                                    nt += 1
        # far displacements (same bank): every multiple-of-256 alias and the window-size aliases of small displacements
        W = 0x8000 if case["rom"] == "low" else 0x10000
        far = set()
        for base in (0x100, 0x200, 0x1000, 0x4000, W // 2, W - 0x100, W):
            for k in (-130, -129, -128, -127, -3, -2, -1, 0, 1, 2, 3, 126, 127, 128, 129):
                far.update((base + k, -(base + k)))
        for d in sorted(x for x in far if abs(x) > 140):
            for tgt in TARGETS:
                for reloc in ("none", "rom"):
                    sub = {"m": case["m"], "rom": case["rom"], "d": d, "tgt": tgt, "place": "far", "reloc": reloc}
                    if check_one(out, sub):
                        ev += 1
                        nt += 1
        # a size suffix on a branch (accepted by the grammar): such a branch is the two-byte instruction all the same -- or is
        # rejected; it never takes more room in the layout than it emits
        for sfx in ("b", "w", "l", "W"):
            for d in (-128, -4, 0, 127):
                sub = {"t": "suffixed", "m": case["m"], "rom": case["rom"], "sfx": sfx, "d": d}
                check_suffixed(out, sub)
                ev += 1
                nt += 1
        # the target label is defined many scope levels above the branch, and a label of the same name exists at the top
        # level (in range too): the displacement is the one to the nearest enclosing definition, at any depth
        for depth in (2, 8, 16, 17, 31, 32, 33, 34, 40, 70):
            sub = {"t": "deep", "m": case["m"], "rom": case["rom"], "depth": depth}
            check_deep(out, sub)
            ev += 1
            nt += 1
        for lead in ("org", "reloc"):
            for v in ("0", "2", "0x10", "0x7f", "-3", "0 - 2", "2 + 3"):
                check_ram_small(out, {"t": "ramsmall", "m": case["m"], "rom": case["rom"], "v": v, "lead": lead})
                ev += 1
                nt += 1
        for lead in ("org", "reloc"):
            for n1, n2 in ((4, 2), (0, 0), (1, 100)):
                check_twice(out, {"t": "twice", "m": case["m"], "rom": case["rom"], "lead": lead, "n1": n1, "n2": n2})
                ev += 1
                nt += 1
        for lead in ("org", "reloc"):
            for k in (0, 1, 3):
                check_flow(out, {"t": "flow", "m": case["m"], "rom": case["rom"], "lead": lead, "k": k})
                ev += 1
                nt += 1
        # the target is in another bank, at (nearly) the same in-bank position
        for db in (1, 2, -1, -3, 0x10):
            for d in (-128, -2, 0, 14, 127):
                for tgt in TARGETS:
                    check_otherbank(out, {"t": "otherbank", "m": case["m"], "rom": case["rom"], "db": db, "d": d, "tgt": tgt})
                    ev += 1
                    nt += 1
        out.evals, out.nontrivial = ev, nt
        out.labels = [f"branch:{case['rom']}:{'full' if case['full'] else 'keypoints'}"]
        b = build({"m": case["m"], "rom": case["rom"], "d": -128, "tgt": "back", "place": "target-at-start", "reloc": "rom"})
        out.sample = {"mnemonic": case["m"], "rom": case["rom"], "cases": ev, "example_source": b[0].splitlines()[:3] + ["..."] + b[0].splitlines()[-1:], "expect": str(b[2])}
        return out
    out = Outcome(evals=1, nontrivial=True)
    if case.get("t") == "suffixed":
        check_suffixed(out, case)
        return out
    if case.get("t") == "deep":
        check_deep(out, case)
        return out
    if case.get("t") == "otherbank":
        check_otherbank(out, case)
        return out
    if case.get("t") == "flow":
        check_flow(out, case)
        return out
    if case.get("t") == "twice":
        check_twice(out, case)
        return out
    if case.get("t") == "ramsmall":
        check_ram_small(out, case)
        return out
    if not check_one(out, case):
        return Outcome(skip="combination outside the statement")
    return out
