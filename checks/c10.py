"""C10 — conditional and loop directives equal the hand-expanded program."""
from __future__ import annotations

from vlib import add_repo_to_path, driver, gen, progen, render, twins
from vlib.model import refasm
from vlib.runner import Outcome
from checks.c03 import compare_with_model

add_repo_to_path()

PROPERTY = "C10"
LEVEL = "exploration"
TECHNIQUE = "Hypothesis-seeded generated programs with .if/.for compared (a) metamorphically with their mechanically hand-expanded twin (selected branch inlined, loops unrolled with the variable substituted), both assembled by a816, and (b) with an independent reference expansion; fixed boundary cases"
RULE = (
    "programs with .if (literal zero / non-zero / negative, expressions, := constants, macro parameters, loop variables, undefined names; with and without else) and .for (bounds b<a, b=a, b=a+1, up to 4 iterations, "
    "from literals, := constants and expressions) whose bodies hold data using the loop variable, labels and self-pointers, nested loops / conditionals, macro applications, blocks, named scopes (whose exported labels the body refers to) and *= / @= moves whose target depends on the loop variable or a parameter.  Oracle 1 (model-free): "
    ".if -> statements of the selected branch, .for -> one `{ }` per value with the variable replaced by its literal value; identical writes and (outer) labels.  Oracle 2: vlib/model/refasm.py.  "
    "Non-trivial = a loop with >=2 iterations whose body uses the variable, or a nested construct, or a condition that is an expression rather than a literal; distinct by case hash."
)
LEVEL_TEXT = "Metamorphic + differential exploration: the unrolled / branch-selected twin needs no expected bytes; the reference expansion checks the same programs independently."
LEVEL_NOTE = "Trusted: vlib/twins.py hand expander and vlib/model/refasm.py. Conditions and bounds mention only expansion-time values (literals, := constants, loop variables, eagerly bound parameters); comparison operators are not generated."
DESIGN_REF = "DESIGN.md §3 C10"
ASSUMPTIONS = ["labels defined in a branch / iteration are not referenced from outside it"]

PROFILE = progen.Profile(text=True, incbin=False, ascii=False, reloc_ram=False, reloc_rom=False, scopes=True, scope_weight=3, loop_weight=5, if_weight=5, call_weight=2, max_stmts=12, max_depth=4)


def selftest() -> None:
    refasm.selftest()


def _build(rng):
    return progen.generate(rng, PROFILE)


def strategy(tier):
    return gen.seeded(_build)


def hyp_examples(tier):
    return 8000 if tier == "quick" else 100000


def enum_units(tier, seed):
    L = lambda v: ["lit", v, "d"]
    db = lambda *es: {"k": "data", "d": "db", "es": list(es)}
    org = {"k": "org", "a": 0x018000}
    cases = []
    # loop bounds: every (a, b) in a small square, including b < a, b == a, b == a + 1
    for a in (0, 1, 3):
        for b in (0, 1, 2, 4):
            cases.append({"rom": "low", "files": {}, "ir": [org, {"k": "for", "v": "i_0", "lo": L(a), "hi": L(b), "b": [db(["id", "i_0"]), {"k": "label", "n": "lb_x"}, {"k": "data", "d": "dl", "es": [["id", "lb_x"]]}]}, db(L(0xEE))]})
    # negative and expression bounds
    for lo_t, hi_t in ((["neg", L(2)], L(1)), (["bin", "-", L(0), L(3)], ["neg", L(1)]), (["neg", L(1)], ["neg", L(1)]), (L(2), ["bin", "*", L(2), L(2)])):
        cases.append({"rom": "low", "files": {}, "ir": [org, {"k": "for", "v": "i_0", "lo": lo_t, "hi": hi_t, "b": [db(["bin", "&", ["id", "i_0"], ["lit", 0xFF, "x"]]), {"k": "data", "d": "dw", "es": [["id", "i_0"]]}]}, db(L(0xEE))]})
    # the loop variable in a condition (always false at the pinned commit)
    cases.append({"rom": "low", "files": {}, "ir": [org, {"k": "for", "v": "i_0", "lo": L(0), "hi": L(3), "b": [{"k": "if", "c": ["id", "i_0"], "t": [db(L(0x11), ["id", "i_0"])], "e": [db(L(0x22))]}]}]})
    cases.append({"rom": "low", "files": {}, "ir": [org, {"k": "for", "v": "i_0", "lo": L(1), "hi": L(3), "b": [{"k": "for", "v": "i_1", "lo": ["id", "i_0"], "hi": ["bin", "+", ["id", "i_0"], L(2)], "b": [db(["id", "i_0"], ["id", "i_1"])]}]}]})
    # bounds and conditions that are expressions over the enclosing loop variable / a macro parameter, written number first
    # (`3 - i`, `2 * i`, `1 + p`): evaluated afresh for every expansion
    for lo_t, hi_t in ((L(0), ["bin", "-", L(3), ["id", "i_0"]]), (["bin", "*", L(2), ["id", "i_0"]], ["bin", "+", ["bin", "*", L(2), ["id", "i_0"]], L(2)]),
                       (["bin", "+", L(1), ["id", "i_0"]], L(4)), (["bin", "-", L(2), ["id", "i_0"]], ["bin", "-", L(4), ["id", "i_0"]])):
        cases.append({"rom": "low", "files": {}, "ir": [org, {"k": "for", "v": "i_0", "lo": L(0), "hi": L(3), "b": [
            {"k": "for", "v": "i_1", "lo": lo_t, "hi": hi_t, "b": [db(["id", "i_0"], ["id", "i_1"])]}, {"k": "if", "c": ["bin", "-", L(1), ["id", "i_0"]], "t": [db(L(0x71))], "e": [db(L(0x72))]}]}, db(L(0xEE))]})
        cases.append({"rom": "low", "files": {}, "ir": [org, {"k": "macro", "n": "m_t", "ps": ["i_0"], "b": [
            {"k": "for", "v": "i_1", "lo": lo_t, "hi": hi_t, "b": [db(["id", "i_0"], ["id", "i_1"])]}, {"k": "if", "c": ["bin", "-", L(2), ["id", "i_0"]], "t": [db(L(0x71))], "e": [db(L(0x72))]}]},
            {"k": "call", "n": "m_t", "args": [L(0)]}, {"k": "call", "n": "m_t", "args": [L(2)]}, {"k": "call", "n": "m_t", "args": [L(1)]}, db(L(0xEE))]})
    # the loop variable (or a := constant written in the body, or a parameter of a macro applied in the body) has the name of an outer
    # constant / label that is used again after the loop: once an iteration is closed the outer meaning is back
    kn = {"k": "const", "n": "k_n", "e": L(9), "eager": True}
    mset = {"k": "macro", "n": "m_set", "ps": ["k_n"], "b": [db(["id", "k_n"])]}
    for body, lo, hi in (([db(["id", "k_n"])], 0, 3), ([{"k": "for", "v": "k_n", "lo": L(5), "hi": L(7), "b": [db(["id", "k_n"])]}, db(["id", "k_n"])], 1, 3),
                         ([{"k": "call", "n": "m_set", "args": [L(0x41)]}, db(["id", "k_n"])], 0, 2),
                         ([{"k": "if", "c": L(1), "t": [{"k": "const", "n": "k_m", "e": L(0x55), "eager": True}, db(["id", "k_m"])], "e": [db(L(0x66))]}, db(["id", "k_m"], ["id", "k_n"])], 0, 3)):
        cases.append({"rom": "low", "files": {}, "ir": [kn, {"k": "const", "n": "k_m", "e": L(0x0A), "eager": True}, org, mset, db(["id", "k_n"]), {"k": "for", "v": "k_n", "lo": L(lo), "hi": L(hi), "b": body}, db(["id", "k_n"], ["id", "k_m"]),
                                                       {"k": "data", "d": "dw", "es": [["bin", "+", ["id", "k_n"], L(0x100)]]}, {"k": "if", "c": ["id", "k_n"], "t": [db(["id", "k_n"])], "e": None}, db(L(0xEE))]})
    # one condition text, or one .if statement of a body, evaluated several times while the name it tests is undefined at one time
    # and defined at another (as a parameter, a loop variable, a constant set earlier in the same iteration, an exported constant):
    # every evaluation stands for itself
    kw = lambda a, b: {"k": "if", "c": ["id", "k_w"], "t": [db(L(a))], "e": [db(L(b))]}
    cases.append({"rom": "low", "files": {}, "ir": [org, kw(1, 2), {"k": "macro", "n": "m_t", "ps": ["k_w"], "b": [kw(3, 4)]}, {"k": "call", "n": "m_t", "args": [L(1)]}, kw(5, 6),
                                                   {"k": "for", "v": "k_w", "lo": L(1), "hi": L(3), "b": [kw(7, 8)]}, kw(9, 10), {"k": "call", "n": "m_t", "args": [L(0)]}, db(L(0xEE))]})
    cases.append({"rom": "low", "files": {}, "ir": [org, {"k": "if", "c": ["id", "sc_c.k_w"], "t": [db(L(1))], "e": [db(L(2))]}, {"k": "scope", "n": "sc_c", "b": [{"k": "const", "n": "k_w", "e": L(1), "eager": True}, kw(3, 4)]},
                                                   {"k": "if", "c": ["id", "sc_c.k_w"], "t": [db(L(5))], "e": [db(L(6))]}, kw(7, 8), db(L(0xEE))]})
    cases.append({"rom": "low", "files": {}, "ir": [org, {"k": "for", "v": "i_0", "lo": L(0), "hi": L(3), "b": [
        {"k": "if", "c": ["id", "i_0"], "t": [{"k": "const", "n": "k_seen", "e": L(1), "eager": True}], "e": None}, {"k": "if", "c": ["id", "k_seen"], "t": [db(L(0xA0), ["id", "i_0"])], "e": [db(L(0xB0), ["id", "i_0"])]}]}, db(L(0xEE))]})
    cases.append({"rom": "low", "files": {}, "ir": [org, {"k": "macro", "n": "m_pick", "ps": ["p_v"], "b": [{"k": "if", "c": ["id", "p_v"], "t": [db(L(0xA1))], "e": [db(L(0xB1))]}, {"k": "data", "d": "dw", "es": [["id", "p_v"]]}]},
                                                   {"k": "call", "n": "m_pick", "args": [["id", "lb_later"]]}, {"k": "call", "n": "m_pick", "args": [L(1)]}, {"k": "call", "n": "m_pick", "args": [["id", "lb_later"]]},
                                                   {"k": "call", "n": "m_pick", "args": [L(0)]}, {"k": "label", "n": "lb_later"}, db(L(0xEE))]})
    cases.append({"rom": "low", "files": {}, "ir": [org, {"k": "for", "v": "i_0", "lo": L(0), "hi": L(3), "b": [{"k": "for", "v": "i_1", "lo": L(0), "hi": L(2), "b": [
        {"k": "if", "c": ["id", "k_late"], "t": [db(L(0xA2))], "e": [db(L(0xB2))]}]}, {"k": "if", "c": ["id", "i_0"], "t": [], "e": None}]}, db(L(0xEE))]})
    # a condition over a qualified name that does not exist (the scope is still open, or has no such member) is false, whatever the
    # plain name means outside
    for inner in ([{"k": "if", "c": ["id", "sc_c.k_d"], "t": [db(L(0x11))], "e": [db(L(0x22))]}],
                  [{"k": "for", "v": "i_0", "lo": L(0), "hi": L(2), "b": [{"k": "if", "c": ["id", "sc_c.k_d"], "t": [db(L(0x11))], "e": [db(L(0x22))]}]}],
                  [{"k": "block", "b": [{"k": "if", "c": ["bin", "+", ["id", "sc_c.k_d"], L(0)], "t": [db(L(0x11))], "e": [db(L(0x22))]}]}]):
        cases.append({"rom": "low", "files": {}, "ir": [{"k": "const", "n": "k_d", "e": L(1), "eager": True}, org, {"k": "scope", "n": "sc_c", "b": inner + [db(L(3))]},
                                                       {"k": "if", "c": ["id", "sc_x.k_d"], "t": [db(L(0x33))], "e": [db(L(0x44))]}, {"k": "if", "c": ["id", "k_d"], "t": [db(L(0x55))], "e": None}, db(L(0xEE))]})
    # a branch may contain macro definitions: after the .if they are as if the taken branch had been written in its place
    mv = lambda *bytes_: {"k": "macro", "n": "m_v", "ps": [], "b": [db(*[L(b) for b in bytes_])]}
    for c in (L(1), L(0), ["id", "k_undefined"], ["neg", L(1)]):
        cases.append({"rom": "low", "files": {}, "ir": [org, mv(0xA1), {"k": "call", "n": "m_v", "args": []}, {"k": "if", "c": c, "t": [mv(0xA2, 0xA3)], "e": [mv(0xA4, 0xA5, 0xA6)]},
                                                       {"k": "call", "n": "m_v", "args": []}, {"k": "for", "v": "i_0", "lo": L(0), "hi": L(2), "b": [{"k": "if", "c": ["id", "i_0"], "t": [mv(0xA7)], "e": None}, {"k": "call", "n": "m_v", "args": []}]},
                                                       {"k": "call", "n": "m_v", "args": []}, db(L(0xEE))]})
    # condition values
    for c in (L(0), L(1), L(5), ["neg", L(1)], ["id", "k_undefined"], ["bin", "-", L(2), L(2)], ["bin", "&", L(6), L(3)]):
        for has_else in (False, True):
            cases.append({"rom": "high", "files": {}, "ir": [{"k": "org", "a": 0xC0FFFE}, {"k": "if", "c": c, "t": [db(L(1))], "e": [db(L(2))] if has_else else None}, db(L(0xEE))]})
    # loop from a constant and a macro parameter
    cases.append({"rom": "low", "files": {}, "ir": [{"k": "const", "n": "k_n", "e": L(3), "eager": True}, org,
                                                   {"k": "macro", "n": "m_a", "ps": ["p_ax"], "b": [{"k": "for", "v": "i_1", "lo": L(0), "hi": ["id", "p_ax"], "b": [db(["id", "i_1"], ["id", "p_ax"])]},
                                                                                                   {"k": "if", "c": ["id", "p_ax"], "t": [db(L(0x55))], "e": None}]},
                                                   {"k": "for", "v": "i_0", "lo": L(0), "hi": ["id", "k_n"], "b": [{"k": "call", "n": "m_a", "args": [["id", "i_0"]]}]}]})
    # conditions whose low 8 / 16 / 24 / 32 bits are zero; an empty first block with an else block
    for v in (0x100, 0x10000, 0x7E0000, 0x1000000, 1 << 32):
        for c in (["lit", v, "x"], ["neg", ["lit", v, "x"]], ["bin", "<<", L(1), L(v.bit_length() - 1)]):
            cases.append({"rom": "low", "files": {}, "ir": [org, {"k": "if", "c": c, "t": [db(L(1))], "e": [db(L(2))]}, db(L(0xEE))]})
    for c in (L(1), L(0)):
        cases.append({"rom": "low", "files": {}, "ir": [org, {"k": "if", "c": c, "t": [], "e": [db(L(2))]}, {"k": "if", "c": c, "t": [db(L(3))], "e": []}, db(L(0xEE))]})
    # a := constant exported by a named scope is known while the program is expanded, like any other := constant
    sc = {"k": "scope", "n": "sc_k", "b": [{"k": "const", "n": "k_in", "e": L(2), "eager": True}, db(["id", "k_in"])]}
    cases.append({"rom": "low", "files": {}, "ir": [org, sc, {"k": "if", "c": ["id", "sc_k.k_in"], "t": [db(L(1))], "e": [db(L(0))]},
                                                   {"k": "for", "v": "i_0", "lo": L(0), "hi": ["id", "sc_k.k_in"], "b": [db(["id", "i_0"])]}, db(["id", "sc_k.k_in"])]})
    # a statement that cannot be assembled inside the TAKEN branch is an error of the program, exactly as in the hand-expanded
    # program (it does not turn the condition into "false")
    for bad in ({"k": "call", "n": "m_nope_zz", "args": [L(1)]}, {"k": "const", "n": "k_bad", "e": ["id", "k_undefined"], "eager": True},
                {"k": "for", "v": "i_b", "lo": L(0), "hi": ["id", "k_undefined"], "b": [db(L(7))]}):
        for has_else in (False, True):
            cases.append({"rom": "low", "files": {}, "ir": [org, db(L(1)), {"k": "if", "c": L(1), "t": [bad], "e": [db(L(2))] if has_else else None}, db(L(0xEE))]})
            cases.append({"rom": "low", "files": {}, "ir": [org, {"k": "for", "v": "i_0", "lo": L(1), "hi": L(3), "b": [{"k": "if", "c": ["id", "i_0"], "t": [bad], "e": [db(L(2))] if has_else else None}]}]})
    # conditions and bounds over names defined many levels above (nested one-iteration loops, blocks, scopes): a := constant
    # of the top level and the outermost loop variable stay visible at any depth
    from vlib import twins as _tw

    for depth in (3, 9, 16, 17, 18, 32, 33, 34, 40):
        inner = [{"k": "if", "c": ["id", "k_flag"], "t": [db(L(0x11))], "e": [db(L(0x22))]},
                 {"k": "if", "c": ["id", "i_top"], "t": [db(L(0x33))], "e": [db(L(0x44))]},
                 {"k": "for", "v": "i_in", "lo": L(0), "hi": ["id", "k_two"], "b": [db(["id", "i_in"], ["id", "i_top"])]}]
        for kinds in (("for",), ("for", "block", "scope")):
            ir = [{"k": "const", "n": "k_flag", "e": L(1), "eager": True}, {"k": "const", "n": "k_two", "e": L(2), "eager": True}, org,
                  {"k": "for", "v": "i_top", "lo": L(1), "hi": L(3), "b": _tw.nest(depth - 1, inner, kinds)}, db(L(0xEE))]
            cases.append({"rom": "low", "files": {}, "ir": ir})
    # a loop body (or a branch taken inside it) that selects a character table: the selection lasts for that iteration only, as
    # in the hand-unrolled program, and the text after the loop is encoded with the table of the enclosing scope
    tf = {"t0.tbl": "41=a\n42=b\n", "t1.tbl": "C1=a\nC2=b\n"}
    tx = lambda s_: {"k": "text", "s": s_}
    for body in ([{"k": "table", "f": "t1.tbl"}, tx("ab"), db(["id", "i_0"])],
                 [db(["id", "i_0"]), {"k": "if", "c": L(1), "t": [{"k": "table", "f": "t1.tbl"}, tx("a")], "e": None}, tx("b")],
                 [{"k": "if", "c": L(0), "t": [tx("a")], "e": [{"k": "table", "f": "t1.tbl"}]}, tx("ba")],
                 [{"k": "for", "v": "i_1", "lo": L(0), "hi": L(2), "b": [{"k": "table", "f": "t1.tbl"}, tx("a")]}, tx("b")],
                 [tx("ab"), {"k": "table", "f": "t1.tbl"}, tx("ab")], [tx("a"), {"k": "if", "c": ["id", "i_0"], "t": [tx("b")], "e": [{"k": "table", "f": "t1.tbl"}]}, tx("ab")]):
        for hi in (1, 2, 3):
            cases.append({"rom": "low", "files": dict(tf), "ir": [{"k": "table", "f": "t0.tbl"}, org, tx("ab"), {"k": "for", "v": "i_0", "lo": L(0), "hi": L(hi), "b": body}, tx("ab"),
                                                                 {"k": "if", "c": L(1), "t": [tx("b")], "e": None}, db(L(0xEE))]})
    return {"units": [{"cases": cases[i::4]} for i in range(4)], "exhaustive": False}


def unit_cases(unit):
    return unit["cases"]


def _features(ir):
    from vlib.model import expr as X
    f = {"loop": 0, "if": 0, "nested": 0, "expr-cond": 0, "var-used": 0, "undef-cond": 0, "else": 0}

    def go(stmts, inside):
        for st in stmts:
            k = st["k"]
            if k == "for":
                f["loop"] += 1
                if inside:
                    f["nested"] += 1
                used = []
                twins.walk(st["b"], lambda s2, _: [used.extend(X.idents(c[k2])) for c, k2 in twins.stmt_exprs(s2)])
                if st["v"] in used:
                    f["var-used"] += 1
                go(st["b"], True)
            elif k == "if":
                f["if"] += 1
                if inside:
                    f["nested"] += 1
                if st["c"][0] != "lit":
                    f["expr-cond"] += 1
                if "k_undefined" in X.idents(st["c"]):
                    f["undef-cond"] += 1
                if st.get("e") is not None:
                    f["else"] += 1
                go(st["t"], True)
                if st.get("e") is not None:
                    go(st["e"], True)
            else:
                for c in twins.children(st):
                    go(c, inside)

    go(ir, False)
    return f


def run_case(case) -> Outcome:
    out = Outcome(evals=1, labels=[])
    model, real, src = compare_with_model(case, out)
    if out.skip:
        return out
    feats = _features(case["ir"])
    out.labels += [k for k, v in feats.items() if v]
    twin_ir, stats = twins.hand_expand(case["ir"])
    out.nontrivial = bool((stats["iterations"] >= 2 and feats["var-used"]) or feats["nested"] or feats["expr-cond"])
    out.sample = {"rom": case["rom"], "source": src.splitlines()[:40], "expanded": stats, "model": model.status}
    if stats["ifs"] + stats["loops"] == 0:
        out.labels.append("nothing-to-expand")
        return out
    tsrc, tinc, _ = render.render(twin_ir)
    treal = driver.assemble_mem(tsrc, rom=case["rom"], files={**(case.get("files") or {}), **tinc})
    out.evals += 1
    if real.accepted != treal.accepted:
        out.bad(f"twin-accept-mismatch:{'original' if not real.accepted else 'twin'}-rejected", case,
                f"original: {real['status']} {real['exc']} {real.failure_text[:160]}; hand-expanded twin: {treal['status']} {treal['exc']} {treal.failure_text[:160]}\n--- original\n{src}\n--- twin\n{tsrc}")
        return out
    if real.accepted:
        if driver.flatten(real["blocks"]) != driver.flatten(treal["blocks"]):
            out.bad("twin-bytes", case, f"program and hand-expanded twin emit different bytes: {driver.blocks_json(real['blocks'], 32)} vs {driver.blocks_json(treal['blocks'], 32)}\n--- original\n{src}\n--- twin\n{tsrc}")
        else:
            # labels: loop iterations are internal scopes in the original but plain blocks in the twin, so only the
            # labels the original lists must also be in the twin with the same values
            import collections
            a, b = collections.Counter(real["labels"]), collections.Counter(treal["labels"])
            if a - b:
                out.bad("twin-labels", case, f"labels of the original missing/different in the twin: {sorted((a - b).elements())}\n--- original\n{src}\n--- twin\n{tsrc}")
        out.labels.append("twin-compared")
    return out


ESSENTIAL = {"twin-compared": 0.5, "var-used": 0.2, "nested": 0.2}
