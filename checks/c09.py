"""C09 — macro application equals the body inlined with parameters bound."""
from __future__ import annotations

import collections

from vlib import add_repo_to_path, driver, gen, progen, render, twins
from vlib.model import refasm
from vlib.runner import Outcome
from checks.c03 import compare_with_model, model_files

add_repo_to_path()

PROPERTY = "C09"
LEVEL = "exploration"
TECHNIQUE = "Hypothesis-seeded generated macro programs compared (a) metamorphically with their mechanically inlined twin, both assembled by a816, and (b) with an independent reference expansion; enumerated reject cases"
RULE = (
    "programs with 1-3 macro definitions (0-3 parameters; bodies with data, sized instructions, local labels and branches to them, nested calls, .if-terminated recursion, {{code}} splices) and applications "
    "at top level, in blocks, named scopes, loops and conditionals; arguments are literals, expressions, := / = constants, backward and forward labels, names that coincide with a parameter name, and code blocks.  "
    "Oracle 1 (model-free): every application outside macro bodies is replaced by `t_i :=|= arg_i` + `{ p_i :=|= t_i ; body }`; twin and original must give identical writes and labels.  Oracle 2: "
    "vlib/model/refasm.py.  Oracle 3: undefined macro / too few arguments => rejected.  Non-trivial = >=2 applications and one of {local label in a body, forward-label argument, argument naming a parameter, "
    "code-block argument, nested call}; distinct by case hash."
)
LEVEL_TEXT = "Metamorphic + differential exploration: each generated program is compared with its inlined twin (no expected bytes needed) and with an independent reference expansion."
LEVEL_NOTE = "Trusted: vlib/twins.py inliner (model-free relation), vlib/model/refasm.py. Surplus arguments are accepted silently today and only counted; code-block arguments contain literals only (capture inside spliced code is as-specified textual expansion)."
DESIGN_REF = "DESIGN.md §3 C09"
ASSUMPTIONS = ["twin binding uses := when the argument only mentions expansion-time names, = otherwise"]

PROFILE = progen.Profile(param_named_consts=True, text=True, incbin=False, ascii=False, orgs=True, reloc_ram=False, scopes=True, max_stmts=12, call_weight=8, min_calls=2)


def selftest() -> None:
    refasm.selftest()


def _build(rng):
    case = progen.generate(rng, PROFILE)
    return case


def strategy(tier):
    return gen.seeded(_build)


def hyp_examples(tier):
    return 8000 if tier == "quick" else 100000


def enum_units(tier, seed):
    M = {"k": "macro", "n": "m_a", "ps": ["p_ax", "p_ay"], "b": [{"k": "data", "d": "db", "es": [["id", "p_ax"], ["id", "p_ay"]]}]}
    org = {"k": "org", "a": 0x008000}
    L = lambda v: ["lit", v, "x"]
    cases = [
        {"t": "reject", "why": "undefined macro", "rom": "low", "ir": [org, M, {"k": "call", "n": "m_zz", "args": [L(1), L(2)]}]},
        {"t": "reject", "why": "too few arguments", "rom": "low", "ir": [org, M, {"k": "call", "n": "m_a", "args": [L(1)]}]},
        {"t": "reject", "why": "no arguments", "rom": "low", "ir": [org, M, {"k": "call", "n": "m_a", "args": []}]},
        # too few arguments is an error whatever the body does with the missing parameter and whatever the call site defines
        {"t": "reject", "why": "too few arguments (the missing parameter is not used by the body)", "rom": "low",
         "ir": [org, {"k": "macro", "n": "m_u", "ps": ["p_ux", "p_uy"], "b": [{"k": "data", "d": "db", "es": [["id", "p_ux"]]}]}, {"k": "call", "n": "m_u", "args": [L(1)]}]},
        {"t": "reject", "why": "too few arguments (a := constant of the call site has the missing parameter's name)", "rom": "low",
         "ir": [{"k": "const", "n": "p_ay", "e": L(0x77), "eager": True}, org, M, {"k": "call", "n": "m_a", "args": [L(1)]}]},
        {"t": "reject", "why": "too few arguments (a = constant of the call site has the missing parameter's name)", "rom": "low",
         "ir": [{"k": "const", "n": "p_ay", "e": L(0x77), "eager": False}, org, M, {"k": "call", "n": "m_a", "args": [L(1)]}]},
        {"t": "reject", "why": "too few arguments (a label of the call site has the missing parameter's name)", "rom": "low",
         "ir": [org, {"k": "label", "n": "p_ay"}, M, {"k": "call", "n": "m_a", "args": [L(1)]}]},
        {"t": "reject", "why": "undefined macro (inside a taken .if branch that has an else branch)", "rom": "low",
         "ir": [org, {"k": "data", "d": "db", "es": [L(1)]}, {"k": "if", "c": L(1), "t": [{"k": "call", "n": "m_zz", "args": [L(2)]}], "e": [{"k": "data", "d": "db", "es": [L(0xEE)]}]}]},
        {"t": "reject", "why": "undefined macro (inside a taken .if branch without else, in a loop)", "rom": "low",
         "ir": [org, {"k": "for", "v": "i_0", "lo": L(0), "hi": L(2), "b": [{"k": "if", "c": L(5), "t": [{"k": "call", "n": "m_zz", "args": []}], "e": None}]}]},
        {"t": "reject", "why": "undefined macro (guarded tail call inside a macro body)", "rom": "low",
         "ir": [org, {"k": "macro", "n": "m_g", "ps": ["p_gx"], "b": [{"k": "data", "d": "db", "es": [["id", "p_gx"]]}, {"k": "if", "c": ["id", "p_gx"], "t": [{"k": "call", "n": "m_tail_zz", "args": [["id", "p_gx"]]}], "e": None}]},
                {"k": "call", "n": "m_g", "args": [L(1)]}]},
        {"t": "reject", "why": "no argument for a macro with one unused parameter", "rom": "low",
         "ir": [org, {"k": "macro", "n": "m_v", "ps": ["p_vx"], "b": [{"k": "data", "d": "db", "es": [L(9)]}]}, {"k": "call", "n": "m_v", "args": []}]},
        {"t": "reject", "why": "too few arguments in a nested application", "rom": "low",
         "ir": [{"k": "const", "n": "p_ay", "e": L(5), "eager": True}, org, M, {"k": "macro", "n": "m_w", "ps": ["p_wx"], "b": [{"k": "call", "n": "m_a", "args": [["id", "p_wx"]]}]}, {"k": "call", "n": "m_w", "args": [L(3)]}]},
        {"t": "reject", "why": "too few arguments in a nested call", "rom": "high", "ir": [
            {"k": "org", "a": 0xC08000}, M, {"k": "macro", "n": "m_b", "ps": ["p_bx"], "b": [{"k": "call", "n": "m_a", "args": [["id", "p_bx"]]}]},
            {"k": "call", "n": "m_b", "args": [L(3)]}]},
        {"rom": "low", "files": {}, "ir": [{"k": "const", "n": "p_ax", "e": L(5), "eager": True}, org, M, {"k": "call", "n": "m_a", "args": [L(1), ["id", "p_ax"]]}]},
        {"rom": "low", "files": {}, "ir": [org, {"k": "label", "n": "lb_loop"}, {"k": "data", "d": "db", "es": [L(0x77)]},
                                          {"k": "macro", "n": "m_c", "ps": ["p_cx"], "b": [{"k": "label", "n": "lb_loop"}, {"k": "data", "d": "dl", "es": [["id", "p_cx"]]}]},
                                          {"k": "call", "n": "m_c", "args": [["id", "lb_loop"]]}, {"k": "call", "n": "m_c", "args": [["id", "lb_later"]]}, {"k": "label", "n": "lb_later"}]},
        # arguments that are known late (labels defined after the call) and are spelled like another parameter / like a label or a
        # constant of the body: they mean what they mean at the call site
        {"rom": "low", "files": {}, "ir": [org, M, {"k": "call", "n": "m_a", "args": [L(1), ["id", "p_ax"]]}, {"k": "data", "d": "db", "es": [L(0x99)]}, {"k": "label", "n": "p_ax"}]},
        {"rom": "low", "files": {}, "ir": [org, M, {"k": "call", "n": "m_a", "args": [["bin", "&", ["id", "p_ay"], L(0xFF)], ["bin", "&", ["id", "p_ax"], L(0xFF)]]}, {"k": "label", "n": "p_ax"},
                                          {"k": "data", "d": "db", "es": [L(0x98)]}, {"k": "label", "n": "p_ay"}]},
        {"rom": "low", "files": {}, "ir": [org, {"k": "macro", "n": "m_c", "ps": ["p_cx"], "b": [{"k": "const", "n": "k_loc", "e": L(3), "eager": True}, {"k": "label", "n": "lb_loc"},
                                                                                          {"k": "data", "d": "dl", "es": [["id", "p_cx"], ["id", "lb_loc"]]}, {"k": "data", "d": "db", "es": [["id", "k_loc"]]}]},
                                          {"k": "call", "n": "m_c", "args": [["id", "lb_loc"]]}, {"k": "call", "n": "m_c", "args": [["bin", "+", ["id", "k_loc"], L(1)]]},
                                          {"k": "label", "n": "lb_loc"}, {"k": "const", "n": "k_loc", "e": L(0x4455), "eager": False}]},
        # names of a closed application (parameters, labels of the body) mean what they meant before, right after it: in the caller's
        # body after a nested application, and at the call site
        {"rom": "low", "files": {}, "ir": [org, {"k": "macro", "n": "m_put", "ps": ["p_v"], "b": [{"k": "data", "d": "db", "es": [["id", "p_v"]]}]},
                                          {"k": "macro", "n": "m_pair", "ps": ["p_v"], "b": [{"k": "call", "n": "m_put", "args": [["bin", "+", ["id", "p_v"], L(1)]]}, {"k": "data", "d": "db", "es": [["id", "p_v"]]},
                                                                                            {"k": "call", "n": "m_put", "args": [["bin", "+", ["id", "p_v"], L(2)]]}, {"k": "data", "d": "dw", "es": [["id", "p_v"]]}]},
                                          {"k": "call", "n": "m_pair", "args": [L(5)]}, {"k": "call", "n": "m_pair", "args": [L(0x20)]}]},
        {"rom": "low", "files": {}, "ir": [{"k": "const", "n": "p_v", "e": L(9), "eager": True}, org, {"k": "macro", "n": "m_put", "ps": ["p_v"], "b": [{"k": "data", "d": "db", "es": [["id", "p_v"]]}]},
                                          {"k": "call", "n": "m_put", "args": [L(3)]}, {"k": "data", "d": "db", "es": [["id", "p_v"]]}, {"k": "call", "n": "m_put", "args": [L(4)]},
                                          {"k": "ins", "m": "lda", "shape": ["#", None, None], "sfx": "b", "e": ["id", "p_v"]}]},
        {"rom": "low", "files": {}, "ir": [org, {"k": "macro", "n": "m_delay", "ps": ["p_n"], "b": [{"k": "label", "n": "lb_loop"}, {"k": "data", "d": "db", "es": [["id", "p_n"]]},
                                                                                              {"k": "ins", "m": "bne", "shape": ["", None, None], "sfx": "", "e": ["id", "lb_loop"]}]},
                                          {"k": "label", "n": "lb_loop"}, {"k": "call", "n": "m_delay", "args": [L(3)]}, {"k": "data", "d": "db", "es": [L(0x88)]},
                                          {"k": "ins", "m": "bne", "shape": ["", None, None], "sfx": "", "e": ["id", "lb_loop"]}, {"k": "data", "d": "dl", "es": [["id", "lb_loop"]]},
                                          {"k": "call", "n": "m_delay", "args": [L(4)]}, {"k": "data", "d": "dl", "es": [["id", "lb_loop"]]}]},
        # a macro defined again: an application expands the definition that was the last one where it stands (also when the second
        # definition is written inside a block, a scope or a branch, before / after applications there)
        {"rom": "low", "files": {}, "ir": [org, {"k": "macro", "n": "m_v", "ps": ["p_vx"], "b": [{"k": "data", "d": "db", "es": [L(0xA1), ["id", "p_vx"]]}]}, {"k": "call", "n": "m_v", "args": [L(1)]},
                                          {"k": "macro", "n": "m_v", "ps": ["p_vx"], "b": [{"k": "data", "d": "dw", "es": [["id", "p_vx"]]}, {"k": "data", "d": "db", "es": [L(0xA2)]}]}, {"k": "call", "n": "m_v", "args": [L(2)]},
                                          {"k": "label", "n": "lb_tail"}, {"k": "data", "d": "dl", "es": [["id", "lb_tail"]]}]},
        {"rom": "low", "files": {}, "ir": [org, {"k": "macro", "n": "m_v", "ps": ["p_vx"], "b": [{"k": "data", "d": "db", "es": [L(0xA1), ["id", "p_vx"]]}]},
                                          {"k": "scope", "n": "sc_v", "b": [{"k": "call", "n": "m_v", "args": [L(1)]}, {"k": "label", "n": "lb_in"},
                                                                            {"k": "macro", "n": "m_v", "ps": ["p_vx"], "b": [{"k": "data", "d": "dw", "es": [["id", "p_vx"]]}, {"k": "data", "d": "db", "es": [L(0xA2)]}]},
                                                                            {"k": "call", "n": "m_v", "args": [L(2)]}]},
                                          {"k": "call", "n": "m_v", "args": [L(3)]}, {"k": "data", "d": "dl", "es": [["id", "sc_v.lb_in"]]}]},
        {"rom": "low", "files": {}, "ir": [org, {"k": "macro", "n": "m_v", "ps": [], "b": [{"k": "data", "d": "db", "es": [L(0xA1)]}]},
                                          {"k": "block", "b": [{"k": "call", "n": "m_v", "args": []}, {"k": "if", "c": L(1), "t": [{"k": "macro", "n": "m_v", "ps": [], "b": [{"k": "data", "d": "db", "es": [L(0xA2), L(0xA3)]}]}], "e": None},
                                                               {"k": "call", "n": "m_v", "args": []}]}, {"k": "call", "n": "m_v", "args": []}]},
        # a bare parameter name as an argument is the number it is bound to in the nearest application, also when an enclosing
        # application has a code-block parameter of the same name (whose block contains this very call)
        {"rom": "low", "files": {}, "ir": [org, {"k": "macro", "n": "m_byte", "ps": ["p_v"], "b": [{"k": "data", "d": "db", "es": [["id", "p_v"]]}]},
                                          {"k": "macro", "n": "m_fill", "ps": ["p_v"], "b": [{"k": "call", "n": "m_byte", "args": [["id", "p_v"]]}, {"k": "call", "n": "m_byte", "args": [["bin", "+", ["id", "p_v"], L(1)]]}]},
                                          {"k": "macro", "n": "m_twice", "ps": ["p_v"], "b": [{"k": "splice", "p": "p_v"}, {"k": "data", "d": "db", "es": [L(0xEE)]}, {"k": "splice", "p": "p_v"}]},
                                          {"k": "call", "n": "m_twice", "args": [{"code": [{"k": "call", "n": "m_fill", "args": [L(7)]}]}]}]},
        # a late-resolved parameter passed on to a nested application while a global constant has the parameter's name
        {"rom": "high", "files": {}, "ir": [{"k": "const", "n": "p_ay", "e": L(5), "eager": True}, {"k": "org", "a": 0x500003},
                                           {"k": "macro", "n": "m_a", "ps": ["p_ax", "p_ay"], "b": [
                                               {"k": "data", "d": "dw", "es": [["id", "p_ay"]]},
                                               {"k": "if", "c": ["id", "p_ax"], "t": [{"k": "call", "n": "m_a", "args": [["bin", "-", ["id", "p_ax"], L(1)], ["id", "p_ay"]]}], "e": None}]},
                                           {"k": "call", "n": "m_a", "args": [L(2), ["id", "lb_2"]]}, {"k": "label", "n": "lb_2"}]},
    ]
    # conditionally-terminated recursion expands completely, however deep (up to what the interpreter's own limit allows)
    rec = {"k": "macro", "n": "m_r", "ps": ["p_rx"], "b": [
        {"k": "data", "d": "db", "es": [["bin", "&", ["id", "p_rx"], ["lit", 0xFF, "x"]]]},
        {"k": "if", "c": ["id", "p_rx"], "t": [{"k": "call", "n": "m_r", "args": [["bin", "-", ["id", "p_rx"], L(1)]]}], "e": None}]}
    for depth in (20, 31, 32, 33, 63, 64, 65, 100, 150):
        cases.append({"rom": "low", "files": {}, "ir": [org, rec, {"k": "call", "n": "m_r", "args": [L(depth)]}, {"k": "label", "n": "lb_tail"}, {"k": "data", "d": "dl", "es": [["id", "lb_tail"]]}]})
    # a code-block argument is expanded where the parameter is spliced, as if written there: what it defines (a label, a :=
    # or = constant) belongs to the application like anything else in the body -- the rest of the body sees it, before other
    # definitions of the name further out, and each application has its own
    for what in ("label", "eager", "late"):
        for ref in ("after", "before", "both"):
            if what == "eager" and ref != "after":
                continue
            for decoy in (False, True):
                for wrap in ("root", "block", "loop"):
                    name = "lb_q" if what == "label" else "kq_v"
                    use = {"k": "data", "d": "dl", "es": [["id", name]]}
                    body = ([use] if ref in ("before", "both") else []) + [{"k": "data", "d": "db", "es": [L(0xB0)]}, {"k": "splice", "p": "p_kc"}] + \
                           ([use, {"k": "ins", "m": "lda", "shape": ["", None, None], "sfx": "w", "e": ["id", name]}] if ref in ("after", "both") else [])
                    mac = {"k": "macro", "n": "m_k", "ps": ["p_kv", "p_kc"], "b": [{"k": "data", "d": "db", "es": [["id", "p_kv"]]}] + body}

                    def arg(v):
                        d = {"k": "label", "n": name} if what == "label" else {"k": "const", "n": name, "e": L(0x1230 + v), "eager": what == "eager"}
                        return {"code": [{"k": "data", "d": "db", "es": [L(v)]}, d, {"k": "data", "d": "dw", "es": [L(0xC0DE)]}]}

                    calls = [{"k": "call", "n": "m_k", "args": [L(1), arg(1)]}, {"k": "data", "d": "db", "es": [L(0x99)]}, {"k": "call", "n": "m_k", "args": [L(2), arg(2)]}]
                    if wrap == "block":
                        calls = [{"k": "block", "b": calls}]
                    elif wrap == "loop":
                        calls = [{"k": "for", "v": "i_0", "lo": L(0), "hi": L(2), "b": calls[:1]}]
                    pre = []
                    if decoy:
                        pre = [{"k": "label", "n": name}, {"k": "data", "d": "db", "es": [L(0xDD)]}] if what == "label" else [{"k": "const", "n": name, "e": L(0x44), "eager": True}]
                    cases.append({"rom": "low", "files": {}, "ir": [org] + pre[:1 if what != "label" else 0] + [mac] + (pre if what == "label" else []) + calls +
                                  [{"k": "label", "n": "lb_tail"}, {"k": "data", "d": "dl", "es": [["id", "lb_tail"]]}]})
    return {"units": [{"cases": [c]} for c in cases], "exhaustive": False}


def unit_cases(unit):
    return unit["cases"]


def _features(ir):
    f = collections.Counter()
    param_names = set()

    def scan(st, in_macro):
        if st["k"] == "macro":
            param_names.update(st["ps"])

    twins.walk(ir, scan)

    def g(st, in_macro):
        from vlib.model import expr as X
        if st["k"] == "call":
            if in_macro:
                f["nested-call"] += 1
            else:
                f["application"] += 1
            for a in st["args"]:
                if isinstance(a, dict) and "code" in a:
                    f["code-arg"] += 1
                else:
                    ids = set(X.idents(a))
                    if ids & param_names and not in_macro:
                        f["arg-names-parameter"] += 1
                    if any(i.startswith("lb_") for i in ids):
                        f["label-arg"] += 1
        if st["k"] == "label" and in_macro:
            f["local-label"] += 1

    twins.walk(ir, g)
    return f


def run_case(case) -> Outcome:
    out = Outcome(evals=1, labels=[])
    if case.get("t") == "reject":
        src, inc, _ = render.render(case["ir"])
        res = driver.assemble_mem(src, rom=case["rom"])
        out.nontrivial = True
        out.labels.append("reject:" + case["why"])
        out.sample = {"source": src.splitlines(), "expect": "rejected: " + case["why"]}
        if res.accepted:
            out.bad("accepted:" + case["why"].split(" (")[0], case, f"{case['why']}: must be rejected but assembled {driver.blocks_json(res['blocks'])}\n{src}")
        return out
    model, real, src = compare_with_model(case, out)
    if out.skip:
        return out
    feats = _features(case["ir"])
    for k in feats:
        out.labels.append(k)
    out.nontrivial = feats["application"] >= 2 and any(feats[k] for k in ("local-label", "label-arg", "arg-names-parameter", "code-arg", "nested-call"))
    # ---- model-free: inlined twin
    twin_ir, n_inlined = twins.inline_calls(case["ir"])
    out.sample = {"rom": case["rom"], "source": src.splitlines()[:40], "applications_inlined": n_inlined, "model": model.status}
    if n_inlined == 0:
        out.labels.append("no-application")
        return out
    tsrc, tinc, _ = render.render(twin_ir)
    files = dict(case.get("files") or {})
    treal = driver.assemble_mem(tsrc, rom=case["rom"], files={**files, **tinc})
    out.evals += 1
    if real.accepted != treal.accepted:
        # the twin is the specification: an application that fails where its inlined form assembles (or vice versa)
        if model.status == "ok" and not treal.accepted:
            return out  # twin construction not applicable (e.g. binding kind), the model comparison above already decided
        out.bad(f"twin-accept-mismatch:{'macro' if not real.accepted else 'twin'}-rejected", case,
                f"program with macros: {real['status']} {real['exc']} {real.failure_text[:160]}; inlined twin: {treal['status']} {treal['exc']} {treal.failure_text[:160]}\n--- original\n{src}\n--- twin\n{tsrc}")
        return out
    if real.accepted:
        if driver.flatten(real["blocks"]) != driver.flatten(treal["blocks"]):
            out.bad("twin-bytes", case, f"macro program and inlined twin emit different bytes: {driver.blocks_json(real['blocks'], 32)} vs {driver.blocks_json(treal['blocks'], 32)}\n--- original\n{src}\n--- twin\n{tsrc}")
        elif sorted(real["labels"]) != sorted(treal["labels"]):
            out.bad("twin-labels", case, f"labels differ: {sorted(real['labels'])} vs {sorted(treal['labels'])}\n--- original\n{src}\n--- twin\n{tsrc}")
        out.labels.append("twin-compared")
    return out


ESSENTIAL = {"twin-compared": 0.5, "arg-names-parameter": 0.15, "local-label": 0.2}
