"""C02 — every label equals the address where the next byte is really emitted."""
from __future__ import annotations

import collections

from vlib import add_repo_to_path, driver, gen, progen, render, twins
from vlib.model import busmodel, refasm
from vlib.runner import Outcome
from checks.c03 import model_files

add_repo_to_path()

PROPERTY = "C02"
LEVEL = "exploration"
TECHNIQUE = "Hypothesis-seeded generated programs with width-inferred operands, shadowing and bank crossings, one fifth of them from a binding-conflict generator (a few names bound several ways at several scope levels, named scopes in pieces, uses in between; model-free oracles only); per-statement agreement between the address/size seen in the label pass and at emission (run-time wrapping of every node class that has pc_after and emit), plus black-box self-pointer labels located in the output image, plus the reference model where all widths are explicit"
RULE = (
    "programs with all statement kinds that occupy space (instructions with and without suffix whose operands are literals, := constants, backward/forward labels and names shadowed by an inner label / "
    "constant; .db/.dw/.dl/.pointer; .ascii; .incbin of 0..70000 bytes; macro applications; loops; .if), nested in blocks / named scopes / macros / loops, with *= / @= moves (ROM and RAM), placements hugging bank "
    "ends, LoROM and HiROM; labels are generated as self-pointers `lb: .dl lb`.  Oracle (accepted programs only): (1) for every node, address received in the label pass == address received at emission, and "
    "predicted advance == emitted byte count; (2) black box: for every listed label not under @=, the written image holds LE24(value) at map(value); .incbin start symbols point at the file's first bytes; (3) when "
    "the reference model applies (not for the binding-conflict programs), label values equal the model's.  A rejected program is fine.  Non-trivial = accepted and (an unsized operand mentioning a symbol, or a bank crossing, or an @=); distinct by case hash."
)
LEVEL_TEXT = "Validity-predicate exploration: no predicted image is needed; each accepted program is checked statement by statement for label-pass / emission agreement and, black box, for self-pointer labels sitting where their value says."
LEVEL_NOTE = ("Trusted: vlib/model/busmodel.py for map()/advance; the wrapper observes whatever node classes exist at run time (exit 2 if none is found). Width inference from symbol values admits several layouts, "
              "so only agreement (or rejection) is required, not a particular width.")
DESIGN_REF = "DESIGN.md §3 C02"
ASSUMPTIONS = ["labels under @= relocation, in macro bodies and in loops are covered by oracle (1) only"]

PROFILE = progen.Profile(text=True, unsized_symbols=True, shadowing=True, param_named_consts=True, max_stmts=14, max_depth=4, edge_weight=0.5, call_weight=4, scope_weight=4, block_weight=4)

# ---- run-time wrapping (from the harness side) --------------------------------------------------------------
_REC = None
_WRAPPED = False
_NCLASSES = 0


def _install():
    global _WRAPPED, _NCLASSES
    if _WRAPPED:
        return
    import inspect

    import a816.parse.nodes as N
    from a816.program import Program

    for name, cls in inspect.getmembers(N, inspect.isclass):
        if cls.__module__ != N.__name__:
            continue
        if "pc_after" in cls.__dict__ or "emit" in cls.__dict__:
            if not (hasattr(cls, "pc_after") and hasattr(cls, "emit")):
                continue
            _NCLASSES += 1
            if "pc_after" in cls.__dict__:
                orig_p = cls.__dict__["pc_after"]

                def pc_after(self, current_pc, _o=orig_p):
                    r = _o(self, current_pc)
                    if _REC is not None:
                        _REC.append(("p", id(self), type(self).__name__, current_pc.logical_value, r.logical_value))
                    return r

                cls.pc_after = pc_after
            if "emit" in cls.__dict__:
                orig_e = cls.__dict__["emit"]

                def emit(self, addr, _o=orig_e):
                    r = _o(self, addr)
                    if _REC is not None:
                        fi = getattr(self, "file_info", None)
                        pos = getattr(fi, "position", None)
                        _REC.append(("e", id(self), type(self).__name__, addr.logical_value, len(r) if r else 0,
                                     (getattr(getattr(pos, "file", None), "filename", None), getattr(pos, "line", None)) if pos is not None else None))
                    return r

                cls.emit = emit
    orig_reset = Program.resolver_reset

    def resolver_reset(self):
        if _REC is not None:
            _REC.append(("reset",))
        return orig_reset(self)

    Program.resolver_reset = resolver_reset
    _WRAPPED = True


def selftest() -> None:
    busmodel.selftest()
    _install()
    if _NCLASSES < 5:
        raise RuntimeError("no node classes with pc_after/emit found to observe")
    # the observer must see a deliberately inconsistent node
    global _REC
    _REC = []
    res = driver.assemble_mem("*=0x008000\nlb_a:\n.dl lb_a\nnop\n")
    rec, _REC = _REC, None
    assert res.accepted and sum(1 for r in rec if r[0] == "e") >= 4 and sum(1 for r in rec if r[0] == "reset") == 2, rec


def _build_conflict(rng):
    """Small programs in which two or three names are bound several times, in several ways and at several scope levels — eager
    constants of one, two and three bytes, `=` constants, labels in bank 00 and in bank 01, members of named scopes (also written
    in pieces) — with unsized and sized uses of the plain and the qualified names scattered between the definitions.  Every
    defect of the family "sized with one binding, emitted with another" (d1f8205, a34840b, 911227a, 801ed04, f4ae6fe, 6e17792)
    is a point of this space; the oracles are the model-free ones (size observer, self-pointers, explicit-size twin)."""
    L = lambda v: ["lit", v, "x"]
    names, scopes = ["nm_a", "nm_b"], ["sc_a", "sc_b"]
    state = {"org": 0, "sp": 0, "bank": 0}

    def org():
        state["org"] += 1
        state["bank"] = rng.choice([0, 1])
        return {"k": "org", "a": (0x008000 if state["bank"] == 0 else 0x018000) + state["org"] * 0x200}

    uses = []

    def use(in_scopes):
        quals = [f"{sc}.{n}" for sc in scopes for n in names]
        ident = rng.choice(names + quals) if rng.random() < 0.6 else rng.choice(quals)
        if rng.random() < 0.6:
            st = {"k": "ins", "m": "lda", "shape": ["", None, None], "sfx": rng.choice(["w", "l"]), "e": ["id", ident]}
            uses.append(st)
            return st
        return {"k": "data", "d": rng.choice(["dl", "dw"]), "es": [["id", ident]]}

    def definition():
        n = rng.choice(names)
        r = rng.random()
        if r < 0.3:
            return [{"k": "const", "n": n, "e": L(rng.choice([0x12, 0x1234, 0x123456])), "eager": True}]
        if r < 0.45:
            return [{"k": "const", "n": n, "e": L(rng.choice([0x12, 0x1234, 0x123456])), "eager": False}]
        return [{"k": "label", "n": n}, {"k": "data", "d": "db", "es": [L(rng.randrange(256))]}]

    def selfptr():
        state["sp"] += 1
        n = f"lb_s{state['sp']}"
        return [{"k": "label", "n": n}, {"k": "data", "d": "dl", "es": [["id", n]]}]

    def body(depth, in_scopes):
        out = []
        for _ in range(rng.randint(2, 6 if depth == 0 else 4)):
            r = rng.random()
            if r < 0.28:
                out += definition()
            elif r < 0.55:
                out.append(use(in_scopes))
                if rng.random() < 0.6:
                    out += selfptr()
            elif r < 0.65 and depth < 3:
                out.append({"k": "block", "b": body(depth + 1, in_scopes)})
            elif r < 0.85 and depth < 3:
                sc = rng.choice(scopes)
                out.append({"k": "scope", "n": sc, "b": body(depth + 1, in_scopes + [sc])})
            elif r < 0.93:
                out.append(org())
            else:
                out += selfptr()
        return out

    ir = [org()] + body(0, []) + selfptr()
    # every name that is used has a definition somewhere it can be seen from: what is missing is defined at the end of the top level
    defined = set()

    def collect(stmts, path):
        for st in stmts:
            if st["k"] in ("label", "const"):
                defined.add(".".join(path[-1:] + [st["n"]]) if path else st["n"])
                if not path:
                    defined.add(st["n"])
            elif st["k"] == "scope":
                collect(st["b"], path + [st["n"]])
            elif st["k"] == "block":
                collect(st["b"], [])

    collect(ir, [])
    top = {st["n"] for st in ir if st["k"] in ("label", "const")}
    tail = []
    for n in names:
        if n not in top:
            tail += [{"k": "label", "n": n}, {"k": "data", "d": "db", "es": [L(0x77)]}]
    for sc in scopes:
        missing = [n for n in names if not any(st["k"] == "scope" and st["n"] == sc and any(x["k"] in ("label", "const") and x["n"] == n for x in st["b"]) for st in ir)]
        if missing:
            tail.append({"k": "scope", "n": sc, "b": [y for n in missing for y in ({"k": "label", "n": n}, {"k": "data", "d": "db", "es": [L(0x78)]})]})
    # mostly in front (so that what follows re-defines visible names), sometimes at the end (forward references)
    ir = ir[:1] + tail + ir[1:] if rng.random() < 0.65 else ir + tail
    # one or two of the instruction uses lose their size suffix: these are the operands whose width is inferred
    for st in rng.sample(uses, min(len(uses), rng.choice([1, 1, 2]))):
        st["sfx"] = ""
        if rng.random() < 0.4:
            st["m"], st["shape"] = rng.choice([("sta", ["", None, "x"]), ("adc", ["", None, None]), ("jmp", ["", None, None])])
    return {"rom": "low", "files": {}, "ir": ir, "model_free": True}


def _build(rng):
    if rng.random() < 0.2:
        return _build_conflict(rng)
    return progen.generate(rng, PROFILE)


def strategy(tier):
    return gen.seeded(_build)


def hyp_examples(tier):
    return 8000 if tier == "quick" else 150000


def enum_units(tier, seed):
    L = lambda v: ["lit", v, "x"]
    lda = lambda e: {"k": "ins", "m": "lda", "shape": ["", None, None], "sfx": "", "e": e}
    sp = lambda n: [{"k": "label", "n": n}, {"k": "data", "d": "dl", "es": [["id", n]]}]
    cases = [
        # the pinned deviation: a constant shadowed by an inner label sizes `lda` differently in the two traversals
        {"rom": "low", "files": {}, "ir": [{"k": "const", "n": "kx_a", "e": L(0x10), "eager": True}, {"k": "org", "a": 0x018000},
                                          {"k": "block", "b": [lda(["id", "kx_a"]), {"k": "label", "n": "kx_a"}]}] + sp("lb_after")},
        {"rom": "low", "files": {}, "ir": [{"k": "org", "a": 0x008000}, {"k": "label", "n": "lb_a"}, {"k": "org", "a": 0x128000},
                                          {"k": "block", "b": [lda(["id", "lb_a"]), {"k": "data", "d": "db", "es": [L(1)]}, {"k": "label", "n": "lb_a"}]}] + sp("lb_after")},
        {"rom": "high", "files": {}, "ir": [{"k": "const", "n": "kx_a", "e": L(0x10), "eager": True}, {"k": "org", "a": 0xC0FFFD},
                                           {"k": "block", "b": [lda(["id", "kx_a"]), {"k": "const", "n": "kx_a", "e": L(0x123456), "eager": False}]}] + sp("lb_after")},
    ]
    # a name with a known value (:= constant) that the same scope defines again later with `=`: the operand before the second
    # definition must not be sized with the old value and emitted with the new one (accepted only with agreeing sizes)
    for ctx in ("root", "block", "named"):
        for old, new_v in ((0x12, 0x1234), (0x1234, 0x12), (0x12, 0x123456), (0x1234, 0x123456)):
            body = [{"k": "const", "n": "kx_r", "e": L(old), "eager": True}, lda(["id", "kx_r"])] + sp("lb_mid") + \
                   [{"k": "const", "n": "kx_r", "e": L(new_v), "eager": False}, {"k": "data", "d": "dl", "es": [["id", "kx_r"]]}]
            wrap = body if ctx == "root" else [{"k": "block", "b": body}] if ctx == "block" else [{"k": "scope", "n": "sc_r", "b": body}]
            cases.append({"rom": "low", "files": {}, "ir": [{"k": "org", "a": 0x018000}] + wrap + sp("lb_end")})
        # ... and the second definition takes its value from a label (known only after the label pass), written with `:=` or `=`
        for old in (0x12, 0x1234, 0x123456):
            for eager in (True, False):
                for ref in ("lb_mid", "lb_end"):
                    body = [{"k": "const", "n": "kx_r", "e": L(old), "eager": True}, lda(["id", "kx_r"])] + sp("lb_mid") + \
                           [{"k": "const", "n": "kx_r", "e": ["id", ref], "eager": eager}, {"k": "data", "d": "dl", "es": [["id", "kx_r"]]}]
                    wrap = body if ctx == "root" else [{"k": "block", "b": body}] if ctx == "block" else [{"k": "scope", "n": "sc_r", "b": body}]
                    if ref == "lb_end" and ctx != "root":
                        continue
                    cases.append({"rom": "low", "files": {}, "ir": [{"k": "org", "a": 0x018000}] + wrap + sp("lb_end")})
        # ... and the other way round: the label (or the `=` constant) comes first and a `:=` of the same name follows later in
        # the same scope, e.g. in a block of constants at the end of the source
        for first in ("label", "late"):
            for v in (0x12, 0x1234, 0x123456):
                d1 = [{"k": "label", "n": "kx_r"}] if first == "label" else [{"k": "const", "n": "kx_r", "e": L(0x4321 if v < 0x100 else 0x21), "eager": False}]
                for where in ("before", "after"):
                    use = [lda(["id", "kx_r"])] + sp("lb_mid")
                    body = (use + d1 if where == "before" else d1 + use) + [{"k": "data", "d": "db", "es": [L(0xE1), L(0xE2)]}, {"k": "const", "n": "kx_r", "e": L(v), "eager": True},
                                                                             {"k": "data", "d": "dl", "es": [["id", "kx_r"]]}]
                    wrap = body if ctx == "root" else [{"k": "block", "b": body}] if ctx == "block" else [{"k": "scope", "n": "sc_r", "b": body}]
                    cases.append({"rom": "low", "files": {}, "ir": [{"k": "org", "a": 0x018000}] + wrap + sp("lb_end")})
    # the names an .incbin defines (start address, size) are definitions of their scope like labels: an unsized operand that
    # uses such a name before the directive, while a constant of the same name exists further out, is not sized with that
    # constant and emitted with the file's address / size (rejected, or sized and emitted alike)
    for sym, outer_v, flen in (("bin9_dat", 0x12, 3), ("bin9_dat", 0x123456, 3), ("bin9_dat__size", 0x1234, 3), ("bin9_dat__size", 0x12, 300), ("bin9_dat__size", 0x123456, 5)):
        for ctx in ("root", "block", "named", "loop", "macro"):
            for where in ("before", "after"):
                use = [lda(["id", sym])] + sp("lb_mid")
                inc = [{"k": "incbin", "f": "bin9.dat"}]
                body = (use + inc if where == "before" else inc + use) + [{"k": "data", "d": "dl", "es": [["id", sym]]}]
                if ctx == "root":
                    wrap = body
                elif ctx == "block":
                    wrap = [{"k": "block", "b": body}]
                elif ctx == "named":
                    wrap = [{"k": "scope", "n": "sc_r", "b": body}]
                elif ctx == "loop":
                    wrap = [{"k": "for", "v": "i_0", "lo": ["lit", 0, "d"], "hi": ["lit", 2, "d"], "b": body}]
                else:
                    wrap = [{"k": "macro", "n": "m_w", "ps": [], "b": body}, {"k": "call", "n": "m_w", "args": []}]
                cases.append({"rom": "low", "files": {"bin9.dat": {"pat": [7, flen]}},
                              "ir": [{"k": "const", "n": sym, "e": L(outer_v), "eager": True}, {"k": "org", "a": 0x018000}] + wrap + sp("lb_end")})
    # a name that an inner scope reads while the program is expanded (an .if condition, a macro argument, a := value) and then
    # uses in an unsized operand, while its binding changes later in the source: the enclosing scope assigns the := constant
    # again, or defines the name as a label / with `=` after the inner scope (what was looked up early is not what counts later)
    mp_ = {"k": "macro", "n": "m_p", "ps": ["p_px"], "b": [{"k": "data", "d": "db", "es": [["bin", "&", ["id", "p_px"], L(0xFF)]]}]}
    for early in ("if", "arg", "assign"):
        for later in ("reassign", "label", "late"):
            for v0, v1 in ((0x12, 0x1234), (0x1234, 0x12), (0x12, 0x123456)):
                rd = {"if": {"k": "if", "c": ["id", "kx_w"], "t": [{"k": "data", "d": "db", "es": [L(1)]}], "e": None},
                      "arg": {"k": "call", "n": "m_p", "args": [["id", "kx_w"]]},
                      "assign": {"k": "const", "n": "kx_j", "e": ["bin", "+", ["id", "kx_w"], L(1)], "eager": True}}[early]
                inner = [rd, lda(["id", "kx_w"])] + sp("lb_mid")
                after = {"reassign": [{"k": "const", "n": "kx_w", "e": L(v1), "eager": True}], "label": [{"k": "label", "n": "kx_w"}, {"k": "data", "d": "db", "es": [L(0x5A)]}],
                         "late": [{"k": "const", "n": "kx_w", "e": L(v1), "eager": False}]}[later]
                for ctx in ("block", "block-block", "named"):
                    nest = [{"k": "block", "b": inner}] if ctx == "block" else [{"k": "block", "b": [{"k": "block", "b": inner}]}] if ctx == "block-block" else [{"k": "scope", "n": "sc_w", "b": inner}]
                    outer = nest + after if later == "reassign" else [{"k": "block", "b": nest + after}]
                    cases.append({"rom": "low", "files": {}, "ir": [{"k": "const", "n": "kx_w", "e": L(v0), "eager": True}, {"k": "org", "a": 0x018000}, mp_] + outer + sp("lb_end")})
    # a forward reference to `scope.name` in an unsized operand, while the plain `name` is visible as something else of another
    # width (a constant, a label of another bank): the qualified name is not the plain one
    for plain in ({"k": "const", "n": "lb_e", "e": L(0x12), "eager": True}, {"k": "const", "n": "lb_e", "e": L(0x123456), "eager": True}, {"k": "label", "n": "lb_e"}):
        for ins_m, sh in (("lda", ["", None, None]), ("jmp", ["", None, None]), ("sta", ["", None, "x"])):
            for target_org in (None, 0x028000):
                ref = {"k": "ins", "m": ins_m, "shape": sh, "sfx": "", "e": ["id", "sc_f.lb_e"]}
                tail = ([{"k": "org", "a": target_org}] if target_org else []) + [{"k": "scope", "n": "sc_f", "b": [{"k": "data", "d": "db", "es": [L(0x60)]}, {"k": "label", "n": "lb_e"}, {"k": "data", "d": "db", "es": [L(0x61)]}]}]
                head = [plain] if plain["k"] == "const" else []
                first = [{"k": "org", "a": 0x008000}] + ([plain, {"k": "data", "d": "db", "es": [L(0xEA)]}] if plain["k"] == "label" else [])
                cases.append({"rom": "low", "files": {}, "ir": head + first + [ref] + sp("lb_mid") + tail + sp("lb_end")})
    # labels and `=` constants named like a register (a, A, x, y, s) used as the operand of the shift / increment instructions that
    # also have an accumulator form, before and after their definition, with and without a size suffix
    for nm in ("a", "A", "x", "s"):
        for m_ in ("inc", "asl", "ror", "dec"):
            for sfx in ("", "w", "b"):
                for how in ("fwd-label", "back-label", "late-const"):
                    ins_ = {"k": "ins", "m": m_, "shape": ["", None, None], "sfx": sfx, "e": ["id", nm]}
                    if how == "fwd-label":
                        body = [ins_] + sp("lb_mid") + [{"k": "label", "n": nm}, {"k": "data", "d": "db", "es": [L(0x5A)]}]
                    elif how == "back-label":
                        body = [{"k": "label", "n": nm}, {"k": "data", "d": "db", "es": [L(0x5A)]}, ins_] + sp("lb_mid")
                    else:
                        body = [{"k": "const", "n": nm, "e": L(0x10), "eager": False}, ins_] + sp("lb_mid")
                    cases.append({"rom": "low", "files": {}, "ir": [{"k": "org", "a": 0x008000}] + body + sp("lb_end")})
    # a qualified name that an outer named scope already exports when it is first evaluated (label pass) and that a nearer
    # scope of the same name (defined later, inside the enclosing block / scope / loop / macro) must win at emission
    def named(body):
        return {"k": "scope", "n": "sc_a", "b": body}

    outer = named([{"k": "data", "d": "db", "es": [L(1)]}, {"k": "label", "n": "lb_a"}, {"k": "data", "d": "db", "es": [L(2)]}])
    inner = named([{"k": "data", "d": "db", "es": [L(3)]}, {"k": "label", "n": "lb_a"}, {"k": "data", "d": "db", "es": [L(4)]}])
    for ref in (lda(["id", "sc_a.lb_a"]), {"k": "ins", "m": "sta", "shape": ["", None, "x"], "sfx": "", "e": ["id", "sc_a.lb_a"]},
                {"k": "data", "d": "dl", "es": [["id", "sc_a.lb_a"]]}):
        for order in ("ref-first", "scope-first"):
            body = [ref, inner] if order == "ref-first" else [inner, ref]
            for ctx in ("block", "named", "loop", "macro"):
                if ctx == "block":
                    wrap = [{"k": "block", "b": body}]
                elif ctx == "named":
                    wrap = [{"k": "scope", "n": "sc_w", "b": body}]
                elif ctx == "loop":
                    wrap = [{"k": "for", "v": "i_0", "lo": ["lit", 0, "d"], "hi": ["lit", 2, "d"], "b": body}]
                else:
                    wrap = [{"k": "macro", "n": "m_w", "ps": [], "b": body}, {"k": "call", "n": "m_w", "args": []}]
                for org in (0x008000, 0x128000):
                    cases.append({"rom": "low", "files": {}, "ir": [{"k": "org", "a": org}, outer] + wrap + sp("lb_end")})
                # ... with the two scopes in banks of different operand width (the outer one's address fits two bytes, the nearer
                # one's needs three, and the other way round): sized with one and emitted with the other shifts every later label
                for org_o, org_w in ((0x008000, 0x018000), (0x018000, 0x008000)):
                    cases.append({"rom": "low", "files": {}, "ir": [{"k": "org", "a": org_o}, outer, {"k": "org", "a": org_w}] + wrap + sp("lb_end")})
    # a label that its scope defines a second time further down (accepted with a warning), in a bank of another operand width,
    # or a label and a later `=` of the same name: an unsized operand between the two definitions is sized with the first and
    # would be emitted with the last
    db = lambda v: {"k": "data", "d": "db", "es": [L(v)]}
    for org_1, org_2 in ((0x008000, 0x018000), (0x018000, 0x008000), (0x008000, 0x008100)):
        for second in ("label", "late"):
            for ref in (lda(["id", "lb_d"]), {"k": "ins", "m": "sta", "shape": ["", None, "x"], "sfx": "", "e": ["id", "lb_d"]},
                        {"k": "ins", "m": "lda", "shape": ["", None, None], "sfx": "w", "e": ["id", "lb_d"]}):
                d2 = [{"k": "label", "n": "lb_d"}, db(2)] if second == "label" else [{"k": "const", "n": "lb_d", "e": L(0x12 if org_1 > 0xFFFF else 0x123456), "eager": False}]
                body = [{"k": "label", "n": "lb_d"}, db(1), ref] + sp("lb_mid") + [{"k": "org", "a": org_2}] + d2 + sp("lb_end")
                for ctx in ("root", "block"):
                    wrap = body if ctx == "root" else [{"k": "block", "b": body}]
                    cases.append({"rom": "low", "files": {}, "ir": [{"k": "org", "a": org_1}] + wrap})
    # a named scope written in two pieces: the first piece gives a name one value (a := constant, or a label in bank 00), the
    # second piece, further down, defines the same name as a label of another width class; `scope.name` between the pieces
    for first in ("const", "label"):
        for ref in (lda(["id", "sc_p.lb_q"]), {"k": "ins", "m": "sta", "shape": ["", None, "x"], "sfx": "", "e": ["id", "sc_p.lb_q"]},
                    {"k": "ins", "m": "lda", "shape": ["", None, None], "sfx": "l", "e": ["id", "sc_p.lb_q"]}):
            p1 = [{"k": "const", "n": "lb_q", "e": L(0x12), "eager": True}] if first == "const" else [{"k": "label", "n": "lb_q"}, db(1)]
            body = [{"k": "scope", "n": "sc_p", "b": p1}, ref] + sp("lb_mid") + [{"k": "org", "a": 0x018000}, {"k": "scope", "n": "sc_p", "b": [db(2), {"k": "label", "n": "lb_q"}, db(3)]}] + sp("lb_end")
            for ctx in ("root", "block"):
                wrap = body if ctx == "root" else [{"k": "block", "b": body}]
                cases.append({"rom": "low", "files": {}, "ir": [{"k": "org", "a": 0x008000}] + wrap})
    # ... and the other way round: the first piece defines the name as a label, the second one as a := constant of another width
    # (found by the binding-conflict generator: the label passes exported the constant again after the label)
    for v in (0x12, 0x91A2B):
        for ref in (lda(["id", "sc_p.lb_q"]), {"k": "ins", "m": "sta", "shape": ["", None, "x"], "sfx": "", "e": ["id", "sc_p.lb_q"]}):
            body = [{"k": "scope", "n": "sc_p", "b": [{"k": "label", "n": "lb_q"}, db(0)]}, ref] + sp("lb_mid") + \
                   [{"k": "scope", "n": "sc_p", "b": [{"k": "const", "n": "lb_q", "e": L(v), "eager": True}]}] + sp("lb_end")
            for ctx in ("root", "block"):
                wrap = body if ctx == "root" else [{"k": "block", "b": body}]
                cases.append({"rom": "low", "files": {}, "ir": [{"k": "org", "a": 0x008200}] + wrap, "model_free": True})
    return {"units": [{"cases": cases}], "exhaustive": False}


def unit_cases(unit):
    return unit["cases"]


def _offset_advance(bus, a, b):
    """how many bytes lie between run addresses a and b (same range), else None"""
    ra, rb = bus.range_of(a), bus.range_of(b)
    if ra is None or rb is None or bus.kind(a) == "rom_out":
        return None
    if ra.ram:
        return b - a if rb.ram else None
    if rb is not ra:
        return None
    return bus.physical(b) - bus.physical(a)


def _has_move(stmts) -> bool:
    found = []
    twins.walk(stmts, lambda s2, _: found.append(1) if s2["k"] in ("org", "reloc", "call") else None)
    return bool(found)


def _plain_labels(ir):
    """labels (outside macro bodies / loops) that are certainly not under an @= : name -> True"""
    ok = {}
    state = {"reloc": None}  # None unknown, False no relocation, True relocated
    moves_in_bodies = []

    def scan(st, in_macro):
        if in_macro and st["k"] in ("org", "reloc"):
            moves_in_bodies.append(1)
        if st["k"] == "call" and any(isinstance(a, dict) and _has_move(a.get("code", [])) for a in st.get("args", [])):
            moves_in_bodies.append(1)

    twins.walk(ir, scan)

    def go(stmts, certain):
        for st in stmts:
            k = st["k"]
            if k == "org":
                state["reloc"] = False if certain else None
            elif k == "reloc":
                state["reloc"] = True if certain else None
            elif k == "label":
                if certain and state["reloc"] is False:
                    ok[st["n"]] = ok.get(st["n"], 0) + 1
            elif k in ("block", "scope", "include"):
                go(st["b"], certain)
            elif k == "if":
                before = state["reloc"]
                has_move = []
                twins.walk(st["t"] + (st.get("e") or []), lambda s2, _: has_move.append(1) if s2["k"] in ("org", "reloc", "call") else None)
                go(st["t"], False)
                if st.get("e") is not None:
                    go(st["e"], False)
                state["reloc"] = before if not has_move else None
            elif k == "macro":
                pass
            elif k in ("for", "call"):
                # the expanded body (any macro, any block argument) may move the position
                if moves_in_bodies or k == "for" and _has_move(st["b"]):
                    state["reloc"] = None
        return None

    go(ir, True)
    return {n for n, c in ok.items() if c == 1}


def run_case(case) -> Outcome:
    global _REC
    _install()
    ir, rom, files = case["ir"], case["rom"], case.get("files") or {}
    bus = busmodel.builtin(rom)
    src, inc, rnd = render.render(ir)
    out = Outcome(evals=1, labels=[f"rom:{rom}"])
    first = next((st for st in ir if st["k"] not in ("const", "macro", "map", "table")), None)
    if first is None or first["k"] != "org":
        return Outcome(skip="program does not start with *= (the default position is outside the mapped window)")
    _REC = []
    try:
        real = driver.assemble_mem(src, rom=rom, files={**files, **inc})
    finally:
        rec, _REC = _REC, None
    out.sample = {"rom": rom, "source": src.splitlines()[:40], "accepted": real.accepted}
    if not real.accepted:
        out.labels.append("rejected")
        out.sample["why"] = f"{real['exc']} {real.failure_text[:120]}"
        return out
    out.labels.append("accepted")
    # ---- (1) per-statement agreement ---------------------------------------------------------------------
    passes = [[]]
    for r in rec:
        if r[0] == "reset":
            passes.append([])
        else:
            passes[-1].append(r)
    if len(passes) < 3:
        raise RuntimeError("observer did not see two label passes and an emission pass")
    p1 = {r[1]: r for r in passes[0] if r[0] == "p"}
    emitted = [r for r in passes[2] if r[0] == "e"]
    n_checked = 0
    crossing = False
    for e in emitted:
        _, nid, cls, ae, n = e[:5]
        p = p1.get(nid)
        if p is None:
            continue  # nodes the label pass skips (symbol definitions)
        _, _, _, a1, b1 = p
        n_checked += 1
        if a1 != ae:
            out.bad(f"address-mismatch:{cls}", case, f"{cls}: label pass saw address {a1:#08x}, emission {ae:#08x}\n{src}")
            break
        if cls in ("CodePositionNode", "RelocationAddressNode"):
            continue
        adv = _offset_advance(bus, a1, b1)
        if adv is None:
            continue
        if adv != n:
            out.bad(f"size-mismatch:{cls}", case, f"{cls} at {a1:#08x}: sized {adv} byte(s) while labels were resolved, emitted {n}\n{src}")
            break
        if n and (a1 >> 16) != (bus.advance(a1, n - 1) >> 16 if adv < bus.room(a1) else a1 >> 16):
            crossing = True
    if n_checked == 0:
        raise RuntimeError("observer matched no node between the label pass and emission")
    # ---- (2) black box: self-pointers / incbin symbols in the written image --------------------------------
    image = driver.image(real["blocks"])
    plain = _plain_labels(ir)
    label_counts = collections.Counter(n for n, _ in real["labels"])
    selfptr = set()

    def find_selfptrs(stmts):
        for i, st in enumerate(stmts):
            if st["k"] == "label" and i + 1 < len(stmts):
                nx = stmts[i + 1]
                if nx["k"] == "data" and nx["d"] == "dl" and nx["es"] and nx["es"][0] == ["id", st["n"]]:
                    selfptr.add(st["n"])
            for c in twins.children(st):
                find_selfptrs(c)

    find_selfptrs(ir)
    defined_anywhere = collections.Counter()
    twins.walk(ir, lambda st, im: defined_anywhere.update([st["n"]]) if st["k"] in ("label", "const") else None)
    selfptr = {n for n in selfptr if defined_anywhere[n] == 1}
    n_bb = 0
    for name, v in real["labels"]:
        if name not in plain or label_counts[name] != 1:
            continue
        if bus.kind(v) != "rom":
            if name in selfptr:
                out.bad("blackbox:label-not-in-rom", case, f"label {name} (not under @=) has the non-ROM value {v:#x}\n{src}")
            continue
        off = bus.physical(v)
        if name in selfptr:
            if sum(1 for a, d in real["blocks"] if a < off + 3 and off < a + len(d)) > 1:
                continue  # overlapping *= regions: a later block may legitimately overwrite the self-pointer
            # (no block at all at that offset is a violation like any other: the bytes after the label are not where it says)
            n_bb += 1
            got = bytes(image.get(off + i, -1) & 0xFF if image.get(off + i) is not None else 0 for i in range(3)) if all((off + i) in image for i in range(3)) else None
            if got != v.to_bytes(3, "little"):
                out.bad("blackbox:self-pointer", case, f"label {name} = {v:#08x} but the bytes written at its mapped offset {off:#x} are {got.hex() if got else None}, not the self-pointer {v.to_bytes(3, 'little').hex()}\n{src}")
                break
        elif name.endswith("_dat") and name.replace("_dat", ".dat") in files:
            data = driver.file_bytes(files[name.replace("_dat", ".dat")])
            n_bb += 1
            if data and bytes(image.get(off + i, 256) & 0xFF for i in range(min(8, len(data)))) != data[:8] and all(image.get(off + i) is not None for i in range(min(8, len(data)))):
                # a later overlapping block may legitimately overwrite it: only flag when no other block covers it
                covering = [a for a, d in real["blocks"] if a <= off < a + len(d)]
                if len(covering) == 1:
                    out.bad("blackbox:incbin-symbol", case, f".incbin symbol {name} = {v:#08x} does not point at the file's first bytes\n{src}")
    # ---- (2b) explicit-size twin: writing the inferred width as a suffix must not change anything ---------------------
    by_line = {}
    for e in emitted:
        if e[2] == "OpcodeNode" and len(e) > 5 and e[5] and e[5][0] == "main.s":
            by_line.setdefault(e[5][1], set()).add(e[4])
    stmt_at = {ln: st for f, ln, st in rnd.positions if f == "main.s"}
    import copy as _copy

    twin_ir = _copy.deepcopy(ir)
    twin_pos = {ln: st for f, ln, st in render.render(twin_ir)[2].positions if f == "main.s"}
    n_sized = 0
    for ln, sizes in by_line.items():
        st0, st1 = stmt_at.get(ln), twin_pos.get(ln)
        if st0 is None or st1 is None or st0.get("k") != "ins" or st0.get("sfx") or st0.get("e") is None or len(sizes) != 1:
            continue
        n = next(iter(sizes))
        if st0["m"] in ("bra", "bne", "beq", "bcc", "bcs", "bmi", "bpl", "bvc", "bvs") or n not in (2, 3, 4):
            continue
        st1["sfx"] = {2: "b", 3: "w", 4: "l"}[n]
        n_sized += 1
    if n_sized:
        tsrc, tinc, _ = render.render(twin_ir)
        treal = driver.assemble_mem(tsrc, rom=rom, files={**files, **tinc})
        out.evals += 1
        out.labels.append("sized-twin")
        if not treal.accepted:
            out.bad("sized-twin:rejected", case, f"adding the inferred width as an explicit suffix to {n_sized} instruction(s) makes the program fail: {treal['exc']} {treal.failure_text[:200]}\n--- original\n{src}\n--- twin\n{tsrc}")
        elif treal["blocks"] != real["blocks"] or sorted(treal["labels"]) != sorted(real["labels"]):
            out.bad("sized-twin:differs", case, f"the program with the inferred widths written as suffixes assembles differently: {driver.blocks_json(real['blocks'], 24)} vs {driver.blocks_json(treal['blocks'], 24)}\n--- original\n{src}\n--- twin\n{tsrc}")
    # ---- (3) reference model where applicable -----------------------------------------------------------------
    # (not for the binding-conflict programs: which of several bindings of one name counts where is C08's question and the
    # statement of C02 leaves it open — there the size observer, the self-pointers and the twin decide)
    model = refasm.assemble(ir, rom=rom, files=model_files(files))
    out.labels.append(f"model:{model.status}")
    if model.status == "ok" and not case.get("model_free"):
        if sorted(real["labels"]) != sorted(model.labels):
            a, b = collections.Counter(real["labels"]), collections.Counter(model.labels)
            out.bad("model:labels", case, f"label values differ from the reference layout: only real {sorted((a - b).elements())[:5]} only model {sorted((b - a).elements())[:5]}\n{src}")
    # ---- classification -------------------------------------------------------------------------------------------
    from vlib.model import expr as X

    unsized_sym = [0]
    shadow = collections.Counter()

    def f(st, im):
        if st["k"] == "ins" and not st.get("sfx") and st.get("e") is not None and X.idents(st["e"]):
            unsized_sym[0] += 1
        if st["k"] in ("label", "const"):
            shadow[st["n"]] += 1

    twins.walk(ir, f)
    has_reloc = []
    twins.walk(ir, lambda st, im: has_reloc.append(1) if st["k"] == "reloc" else None)
    if unsized_sym[0]:
        out.labels.append("unsized-symbol-operand")
    if crossing:
        out.labels.append("bank-crossing")
    if has_reloc:
        out.labels.append("reloc")
    if any(c >= 2 for c in shadow.values()):
        out.labels.append("shadowing")
    if n_bb:
        out.labels.append("blackbox-checked")
    out.nontrivial = bool(unsized_sym[0] or crossing or has_reloc)
    out.sample["nodes_checked"] = n_checked
    out.sample["blackbox_labels"] = n_bb
    return out


ESSENTIAL = {"accepted": 0.35, "unsized-symbol-operand": 0.2, "blackbox-checked": 0.12}
