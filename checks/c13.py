"""C13 — `.include_ips 'file', delta` reproduces the patch's effect shifted by delta; malformed patches are rejected."""
from __future__ import annotations

from vlib import add_repo_to_path, driver, gen
from vlib.model import ips
from vlib.runner import Outcome

add_repo_to_path()

PROPERTY = "C13"
LEVEL = "exploration"
TECHNIQUE = "Hypothesis-seeded generated IPS files (plain / run-length / maximum-length / adjacent / overlapping records, built by an independent encoder), signed deltas in three spellings, directive placements; exhaustive truncation of small patches; differential against an independent strict IPS reader"
RULE = (
    "IPS files of 0-12 records built by vlib/model/ips.build: plain records (1..65535 bytes, weight on 1,2,65535) and run-length records (count 1..65535), adjacent / overlapping / out of "
    "order, contents including the bytes 'EOF' and 'PATCH', offsets anywhere in [0x20000, 2^24) except 0x454F46, plus (15 %) patches whose first record lands exactly on output offset 0 after the delta; delta in {0, +-1, +-0x200, random} written as literal, `0 - n` or `-n`; the "
    "directive at top level, inside a block, or between data statements of a host program that emits elsewhere.  Oracle: writer calls minus the host's own blocks (which, like its labels, must equal the host "
    "assembled alone) have the normalised effect [(offset+delta, data)] in record order.  Malformed inputs (wrong / missing header, every truncation point of a small patch, missing EOF, garbage) must be rejected.  "
    "Non-trivial = >=1 run-length record, or >=2 records, or a 65535-byte record, or a non-zero delta, or a malformed input; distinct by case hash."
)
LEVEL_TEXT = "Differential exploration against an independent strict IPS reader/encoder over generated and exhaustively truncated patch files."
LEVEL_NOTE = "Trusted: vlib/model/ips.py. Not generated: offset+delta >= 2^24 or below -0x200 (unspecified; landings in [-0x200, 0) are generated as the headered-patch idiom), a record at 0x454F46 (ambiguous in the format), trailing bytes after EOF, RLE count 0."
DESIGN_REF = "DESIGN.md §3 C13, §2.6"
ASSUMPTIONS = ["host program emits at ROM offsets 0x8000..0x803F only; patch records (after delta) stay clear of 0x7F00..0x80FF and inside [0, 2^24)"]

HOST_PRE = "*=0x018000\n.db 1, 2, 3\nhost_a:\n"
HOST_POST = ".db 4, 5\nhost_b:\n.dl host_b\n"


def selftest() -> None:
    ips.selftest()


def _near_host(o: int, n: int) -> bool:
    """does [o, o+n) touch the neighbourhood of the host program's own bytes (ROM offsets 0x8000..0x803F)?"""
    return o < 0x8100 and o + n > 0x7F00


def _payload(rng, n):
    k = rng.random()
    if n <= 64 and k < 0.5:
        word = rng.choice([b"EOF", b"PATCH", bytes([rng.randrange(256)])])
        return {"hex": (word * (n // len(word) + 1))[:n].hex()}
    if n <= 64:
        return {"hex": bytes(rng.randrange(256) for _ in range(n)).hex()}
    return {"pat": [rng.randint(0, 250), n]}


def _build_headered(rng):
    """the header-stripping idiom: a patch made for a headered ROM included with a negative delta, some of whose records sit
    inside the 0x200-byte copier header and so land below zero"""
    delta = rng.choice([-0x200, -0x200, -0x100, -0x1FF, -0x201 + rng.randint(1, 0x1F0)])
    recs = []
    for i in range(rng.randint(1, 5)):
        n = rng.choice([1, 2, 3, 4, 16, rng.randint(1, 0x120)])
        k = rng.random()
        if i == 0 or k < 0.4:
            off = rng.randint(0, -delta - 1)  # lands below zero (it may reach across zero)
        elif k < 0.7:
            off = rng.randint(-delta, 0x600)
        else:
            off = rng.randint(0x20000, 0x400000)
        recs.append([off, {"rle": [rng.randrange(256), n]}] if rng.random() < 0.3 else [off, _payload(rng, n)])
    return {"t": "headered", "records": recs, "delta": delta, "form": rng.choice(["lit", "zero-minus", "neg"]), "place": rng.choice(["top", "block", "between", "scope"])}


def _build(rng):
    if rng.random() < 0.06:
        return _build_headered(rng)
    nrec = rng.choice([0, 1, 1, 2, 2, 3, 5, 8, 12])
    many = rng.random() < 0.02
    if many:
        nrec = rng.choice([255, 256, 257, 300, 700])  # more records than any 8-bit counter holds
    recs = []
    d_kind = rng.random()
    delta = 0 if d_kind < 0.25 else rng.choice([1, -1, 0x200, -0x200]) if d_kind < 0.6 else rng.randint(-0x8000, 0x8000)
    lo, hi = 0x20000, (1 << 24) - 0x20000
    prev_end = rng.randint(lo, hi - 0x100000)
    big_left = 2
    if rng.random() < 0.15:
        # the first record lands exactly on output offset 0 (a headered patch included with -0x200, a record at 0 ...)
        first = rng.choice([0, 0, 0x200, 0x200, 1, 0x1000, 0x7FFF])
        delta, lo, prev_end, big_left = -first, first, first, 0
        nrec = max(1, min(nrec, 4))
    for _ in range(nrec):
        rle = rng.random() < 0.35
        k = rng.random()
        if k < 0.45:
            n = rng.choice([1, 1, 2, 3])
        elif k < 0.85 or big_left == 0:
            n = rng.randint(1, 300)
        else:
            n = rng.choice([65535, 65534, 40000])
            big_left -= 1
        if delta + lo == 0 and lo < 0x20000:
            n = min(n, 200)
        if many:
            n = rng.choice([1, 1, 2, 3])
        p = rng.random()
        if p < 0.35:
            off = prev_end  # adjacent
        elif p < 0.5:
            off = max(lo, prev_end - rng.randint(1, 5))  # overlapping
        elif p < 0.65:
            off = max(lo, prev_end - rng.randint(1000, 100000))  # out of order
        else:
            off = rng.randint(lo, hi - 70000) if lo >= 0x20000 else prev_end + rng.randint(0, 40)
        if off + n >= hi:
            off = hi - n - 1
        if off == ips.EOF_OFFSET:
            off += 1
        if rle:
            recs.append([off, {"rle": [rng.randrange(256), n]}])
        else:
            recs.append([off, _payload(rng, n)])
        prev_end = off + n
    return {"t": "good", "records": recs, "delta": delta, "form": rng.choice(["lit", "zero-minus", "neg"]),
            "place": rng.choice(["top", "block", "between", "scope", "loop", "macro", "reassigned", "again"])}


def strategy(tier):
    return gen.seeded(_build)


def hyp_examples(tier):
    return 8000 if tier == "quick" else 100000


def custom_units(tier, seed):
    if tier != "thorough":
        return []
    return [{"fuzz": "fuzz_c13.py", "runs": 50000, "seed": seed * 100 + i + 1, "corpus": None if i % 2 == 0 else "corpus_c13"} for i in range(4)]


def run_custom(payload, tier, seed, acc):
    import os

    from vlib import VERIF_ROOT
    from vlib.runner import run_atheris

    corpus = os.path.join(VERIF_ROOT, "fuzz", payload["corpus"]) if payload["corpus"] else None
    done, bad, note = run_atheris(payload["fuzz"], payload["runs"], payload["seed"], corpus, 512)
    out = Outcome(evals=done, nontrivial=0, labels=["atheris:" + (note or ("seed-corpus" if corpus else "empty-corpus"))])
    out.sample = {"atheris": payload, "executions": done, "note": note}
    for data in bad:
        if not data.startswith(b"PATCH"):
            data = b"PATCH" + data
        try:
            ips.parse(data)
            good = True
        except ips.IpsError:
            good = False
        sub = {"t": "raw", "hex": data.hex(), "wellformed": good}
        sub_out = run_case(sub)
        out.violations += sub_out.violations
    if done == 0 and not note:
        out.skip = "atheris produced no executions"
    acc.add(payload, out)


def _small_patch() -> bytes:
    return ips.build([(0x20000, b"abc"), (0x20010, (0x7E, 5)), (0x30000, b"EOFPATCH"), (0x20003, b"z")])


def enum_units(tier, seed):
    blob = _small_patch()
    cases = [{"t": "bad", "hex": blob[:cut].hex(), "why": f"truncated at {cut}/{len(blob)}"} for cut in range(len(blob))]
    cases += [
        {"t": "bad", "hex": (b"PATCX" + blob[5:]).hex(), "why": "wrong header"},
        {"t": "bad", "hex": blob[5:].hex(), "why": "missing header"},
        {"t": "bad", "hex": (b"patch" + blob[5:]).hex(), "why": "lower-case header"},
        {"t": "bad", "hex": blob[:-3].hex(), "why": "missing EOF"},
        {"t": "bad", "hex": b"".hex(), "why": "empty file"},
        {"t": "bad", "hex": (b"PATCH" + b"\x02\x00\x00\x00\x05ab" + b"EOF").hex(), "why": "record shorter than its size, then EOF"},
        {"t": "bad", "hex": (b"PATCH" + b"\x02\x00\x00\x00\x00\x00\x04").hex(), "why": "truncated RLE record, no EOF"},
        {"t": "bad", "hex": (b"PATCH" + b"\x02\x00\x00\x00\x00\x00").hex(), "why": "truncated RLE count"},
    ]
    # well-formed fixed points
    cases += [
        {"t": "good", "records": [], "delta": 0, "form": "lit", "place": "top"},
        {"t": "good", "records": [[0x20000, {"rle": [0xAA, 65535]}]], "delta": 0x200, "form": "lit", "place": "top"},
        {"t": "good", "records": [[0x20000, {"rle": [0, 1]}], [0x20001, {"hex": "454f46"}]], "delta": -1, "form": "neg", "place": "block"},
        {"t": "good", "records": [[0x20000, {"pat": [3, 65535]}], [0x20000 + 65535, {"pat": [9, 65535]}]], "delta": -0x200, "form": "zero-minus", "place": "between"},
        {"t": "good", "records": [[0xFFFF00, {"hex": "00" * 0x100}]], "delta": 0, "form": "lit", "place": "scope"},
    ]
    # record offsets whose three bytes spell the end marker in another letter case (eof, Eof, eOF ...) are ordinary offsets
    for i in range(1, 8):
        off = 0x454F46 | (0x200000 if i & 4 else 0) | (0x2000 if i & 2 else 0) | (0x20 if i & 1 else 0)
        cases.append({"t": "good", "records": [[0x20010, {"hex": "a1a2"}], [off, {"hex": "b1b2b3"}], [0x20020, {"rle": [0x7E, 4]}]], "delta": 0, "form": "lit", "place": ["top", "between", "block"][i % 3]})
        cases.append({"t": "good", "records": [[off, {"rle": [i, 3]}], [off + 3, {"hex": "c1"}]], "delta": -0x10, "form": "neg", "place": "between"})
    # a record that lands exactly on the end-marker offset (by the delta, or by the copier header): the writer is handed the block; a
    # patch file cannot hold it, so writing the patch is refused -- the record is never left out of a patch that is reported as written
    cases += [{"t": "eofland", "off": 0x455146, "delta": -0x200, "copier": False}, {"t": "eofland", "off": 0x454D46, "delta": 0, "copier": True},
              {"t": "eofland", "off": 0x454F45, "delta": 1, "copier": False}, {"t": "eofland", "off": 0x454F46 - 0x200 + 0x10, "delta": -0x10, "copier": True}]
    cases += [
    ]
    # file lengths around the I/O buffer sizes: the EOF marker (and record headers) straddling a 4096 / 8192-byte boundary
    for base in (4096, 8192, 16384, 65536):
        for total in range(base - 6, base + 9):
            n = total - 13
            cases.append({"t": "good", "records": [[0x20000, {"pat": [total % 250, n]}]], "delta": 0, "form": "lit", "place": "top"})
            cases.append({"t": "good", "records": [[0x20000, {"pat": [3, n - 9]}], [0x40000, {"rle": [0x11, 7]}], [0x50000, {"hex": "aa"}]][: 3 if n > 30 else 1],
                          "delta": 0x200, "form": "lit", "place": "between"} if n > 30 and n - 9 <= 65535 else cases[-1])
    return {"units": [{"cases": cases[i::8]} for i in range(8)], "exhaustive": False}


def unit_cases(unit):
    return unit["cases"]


def _delta_text(delta, form):
    if delta >= 0:
        return f"0x{delta:x}" if form != "zero-minus" else f"0x{delta:x} - 0"
    if form == "neg":
        return f"-0x{-delta:x}"
    if form == "zero-minus":
        return f"0 - 0x{-delta:x}"
    return f"-{-delta}"


LOOP_STEP = 0x10000


def _program(place, delta_text):
    d = f".include_ips 'p.ips', {delta_text}\n"
    if place == "loop":
        # the same directive expanded three times with a delta that depends on the loop variable
        return HOST_PRE + f".for i_d := 0, 3 {{\n.include_ips 'p.ips', {delta_text} + i_d * 0x{LOOP_STEP:x}\n}}\n" + HOST_POST
    if place == "reassigned":
        # the delta comes from a := symbol that is assigned again right after the directive (a running base): the directive
        # uses the value the symbol has where it stands
        return HOST_PRE + f"k_base := {delta_text}\n.include_ips 'p.ips', k_base\nk_base := k_base + 0x{LOOP_STEP:x}\n.include_ips 'p.ips', k_base\nk_base := 0\n" + HOST_POST
    if place == "macro":
        return HOST_PRE + f".macro m_ips(p_d) {{\n.include_ips 'p.ips', p_d\n}}\nm_ips({delta_text})\nm_ips({delta_text} + 0x{LOOP_STEP:x})\n" + HOST_POST
    if place == "again":
        # the same file with the same delta a second time, after another patch (q.ips: the same records with every byte
        # inverted) has gone over the same offsets: each directive reproduces the patch's effect where it stands
        return HOST_PRE + d + f".include_ips 'q.ips', {delta_text}\n" + d + HOST_POST
    if place == "top":
        return d + HOST_PRE + HOST_POST
    if place == "block":
        return HOST_PRE + "{\n" + d + "}\n" + HOST_POST
    if place == "scope":
        return HOST_PRE + ".scope sc_a {\n.db 9\n" + d + "lb_in:\n}\n" + HOST_POST
    return HOST_PRE + d + HOST_POST


def _host_only(place):
    if place == "scope":
        return HOST_PRE + ".scope sc_a {\n.db 9\nlb_in:\n}\n" + HOST_POST
    if place == "block":
        return HOST_PRE + "{\n}\n" + HOST_POST
    if place == "loop":
        return HOST_PRE + ".for i_d := 0, 3 {\n}\n" + HOST_POST
    if place == "macro":
        return HOST_PRE + ".macro m_ips(p_d) {\n}\nm_ips(0)\nm_ips(0)\n" + HOST_POST
    return HOST_PRE + HOST_POST


def _run_raw(case) -> Outcome:
    """arbitrary bytes (from the fuzzer): well formed => same effect, malformed => rejected"""
    data = bytes.fromhex(case["hex"])
    out = Outcome(evals=1, nontrivial=True, labels=["raw-bytes"])
    try:
        recs = ips.parse(data)
        good = True
    except ips.IpsError:
        good = False
        try:
            ips.parse(data, strict_tail=False)
            return Outcome(skip="trailing bytes after EOF (outside the generated domain)")
        except ips.IpsError:
            pass
    if good and any(o == ips.EOF_OFFSET or _near_host(o, len(d)) or len(d) == 0 for o, d, _ in recs):
        return Outcome(skip="record outside the generated domain")
    res = driver.assemble_mem(_program("between", "0"), files={"p.ips": {"hex": case["hex"]}})
    host = driver.assemble_mem(_host_only("between"))
    if good:
        if not res.accepted:
            out.bad(f"raw:wellformed-rejected:{res['exc']}", case, f"well-formed patch rejected: {res['exc']} {res.failure_text[:120]} bytes={case['hex'][:80]}")
        else:
            calls = list(res["blocks"])
            for hb in host["blocks"]:
                if hb in calls:
                    calls.remove(hb)
            if ips.normalise(calls) != ips.normalise([(o, d) for o, d, _ in recs]):
                out.bad("raw:effect", case, f"effect differs for bytes={case['hex'][:80]}")
    elif res.accepted:
        out.bad("raw:malformed-accepted", case, f"malformed patch accepted: bytes={case['hex'][:80]}")
    return out


def run_case(case) -> Outcome:
    if case["t"] == "raw":
        return _run_raw(case)
    if case["t"] == "bad":
        blob = bytes.fromhex(case["hex"])
        try:
            ips.parse(blob)
            return Outcome(skip="enumerated input is well formed")
        except ips.IpsError:
            pass
        out = Outcome(evals=1, nontrivial=True, labels=["malformed"])
        out.sample = {"malformed": case["why"], "bytes": case["hex"][:60]}
        # "rejected" includes "in bounded time": a reader that never comes back from a short file has not rejected it
        from vlib import watchdog

        w = watchdog.Watchdog(2_000_000, cpu_seconds=30.0)
        st_, res = w.run(driver.assemble_mem, _program("between", "0"), files={"p.ips": {"hex": case["hex"]}})
        if st_ == "budget":
            return out.bad("malformed-not-rejected:no-termination:" + case["why"].split(" at ")[0], case,
                           f"malformed IPS file ({case['why']}): the assembler did not come back within 2 000 000 line events ({res})")
        if st_ != "ok":
            raise RuntimeError(f"driver failed: {res}")
        if res.accepted:
            out.bad("malformed-accepted:" + case["why"].split(" at ")[0], case,
                    f"malformed IPS file ({case['why']}) was accepted; writer calls {driver.blocks_json(res['blocks'], 16)}")
        return out
    if case["t"] == "headered":
        return _run_headered(case)
    if case["t"] == "eofland":
        blob = ips.build([(0x20010, b"\xa1\xa2"), (case["off"], b"\xb1\xb2\xb3"), (0x20020, b"\xc1")])
        dt = _delta_text(case["delta"], "lit" if case["delta"] >= 0 else "neg")
        src = _program("between", dt)
        files = {"p.ips": {"hex": blob.hex()}}
        out = Outcome(evals=2, nontrivial=True, labels=["lands-on-eof-marker"])
        out.sample = {"record_offset": hex(case["off"]), "directive": f".include_ips 'p.ips', {dt}", "copier_header": case["copier"]}
        res = driver.assemble_mem(src, files=files)
        land = case["off"] + case["delta"]
        if not res.accepted or (land, b"\xb1\xb2\xb3") not in [(a, bytes(d)) for a, d in res["blocks"]]:
            out.bad("eofland:writer-calls", case, f"the record at {case['off']:#x}{case['delta']:+#x} was not handed to the writer at {land:#x}: {res['status']} {res['exc']} {driver.blocks_json(res['blocks'], 8)}")
        f = driver.assemble_file_api(src, fmt="ips", copier=case["copier"], files=files)
        if f["status"] == "ok" and f["rc"] in (0, None):
            try:
                parsed = ips.parse(f["output"] or b"")
            except ips.IpsError as e:
                parsed = None
                out.bad("eofland:patch-unparseable", case, f"a patch was reported as written but does not parse: {e}")
            if parsed is not None and not any(bytes(d) == b"\xb1\xb2\xb3" for _, d, _ in parsed):
                out.bad("eofland:record-dropped", case, f"the patch was reported as written (rc {f['rc']}) but the record that lands on file offset 0x454F46 is not in it: records {[(hex(o), len(d)) for o, d, _ in parsed]}")
        return out
    records, delta = case["records"], case["delta"]
    recs = []
    for off, spec in records:
        if "rle" in spec:
            recs.append((off, (spec["rle"][0], spec["rle"][1])))
        else:
            recs.append((off, driver.file_bytes(spec)))
    if any(off == ips.EOF_OFFSET for off, _ in recs):
        return Outcome(skip="record at the EOF marker offset (ambiguous)")
    blob = ips.build(recs)
    reps = {"loop": [0, LOOP_STEP, 2 * LOOP_STEP], "macro": [0, LOOP_STEP], "reassigned": [0, LOOP_STEP]}.get(case["place"], [0])
    expected = [(off + delta + extra, (bytes([p[0]]) * p[1]) if isinstance(p, tuple) else p) for extra in reps for off, p in recs]
    pfiles = {"p.ips": {"hex": blob.hex()}}
    if case["place"] == "again":
        inv = [(off, (p[0] ^ 0xFF, p[1]) if isinstance(p, tuple) else bytes(b ^ 0xFF for b in p)) for off, p in recs]
        pfiles["q.ips"] = {"hex": ips.build(inv).hex()}
        expected = expected + [(off + delta, (bytes([p[0]]) * p[1]) if isinstance(p, tuple) else p) for off, p in inv] + expected
    if any(o < 0 or _near_host(o, len(d)) or o + len(d) > 1 << 24 for o, d in expected):
        return Outcome(skip="offset+delta outside the generated domain")
    labels = [f"place:{case['place']}", f"delta-form:{case['form']}"]
    n_rle = sum(1 for _, p in recs if isinstance(p, tuple))
    nt = n_rle > 0 or len(recs) >= 2 or any(not isinstance(p, tuple) and len(p) == 65535 for _, p in recs) or delta != 0
    if n_rle:
        labels.append("rle")
    if len(recs) >= 2:
        labels.append("records>=2")
    if delta:
        labels.append("delta!=0")
    if any((len(p) if not isinstance(p, tuple) else p[1]) >= 40000 for _, p in recs):
        labels.append("big-record")
    out = Outcome(evals=1, nontrivial=nt, labels=labels)
    dt = _delta_text(delta, case["form"])
    src = _program(case["place"], dt)
    out.sample = {"records": [[hex(o), (s if "hex" not in s else {"hex": s["hex"][:24]})] for o, s in records][:6], "directive": f".include_ips 'p.ips', {dt}", "place": case["place"]}
    host = driver.assemble_mem(_host_only(case["place"]))
    res = driver.assemble_mem(src, files=pfiles)
    if not host.accepted:
        return Outcome(skip="host program rejected")
    kinds = ("rle" if n_rle else "plain")
    if not res.accepted:
        return out.bad(f"wellformed-rejected:{kinds}:{res['exc'] or 'error'}@{res['frame']}", case,
                       f"well-formed patch rejected: {res['status']} {res['exc']} {res.failure_text[:200]}\n{src}records={[(hex(o), 'rle' if isinstance(p, tuple) else len(p)) for o, p in recs]}")
    calls = list(res["blocks"])
    for hb in host["blocks"]:
        if hb in calls:
            calls.remove(hb)
        else:
            return out.bad("host-output-changed", case, f"the surrounding program's own block {hb[0]:#x}:{hb[1].hex()} is missing/changed; calls {driver.blocks_json(res['blocks'], 16)}")
    if sorted(res["labels"]) != sorted(host["labels"]):
        out.bad("host-labels-changed", case, f"labels with directive {res['labels']} vs without {host['labels']}")
    if (len(recs) + abs(delta)) % 4 == 0 and all(o >= 0 for o, _ in expected) and sum(len(d) for _, d in expected) < 200000:
        # the same program read from src/main.s while other files called p.ips lie next to it: the patch named by the directive is the
        # one in the working directory (paths are relative to it), and the written patch has its records
        f = driver.assemble_file_api(src, fmt="ips", files=pfiles, env={"subdir": True})
        out.evals += 1
        out.labels.append("source-in-subdirectory")
        if f["status"] != "ok" or f["rc"] not in (0, None):
            out.bad("subdir:failed", case, f"assembling src/main.s (a decoy p.ips beside it) failed: {f['status']} rc={f['rc']} {f['exc']} {f['msg'][:160]}")
        else:
            try:
                parsed = ips.parse(f["output"] or b"")
                if ips.apply([(o, d) for o, d, _ in parsed]) != ips.apply(list(res["blocks"])):
                    out.bad("subdir:effect", case, f"the patch written for src/main.s differs from the in-memory result: records {[(hex(o), len(d)) for o, d, _ in parsed][:6]}")
            except ips.IpsError as e:
                out.bad("subdir:unparseable", case, f"output patch: {e}")
    got = ips.normalise(calls)
    want = ips.normalise(expected)
    if got != want:
        kind = "delta" if ips.normalise([(o - delta, d) for o, d in calls]) == ips.normalise([(o, d) for o, d in [(x - delta, y) for x, y in expected]]) and False else kinds
        out.bad(f"effect:{kind}", case, f"patch effect differs: got {[(hex(o), len(d), d[:4].hex()) for o, d in got][:6]} expected {[(hex(o), len(d), d[:4].hex()) for o, d in want][:6]} (delta {delta})")
    return out


def _run_headered(case) -> Outcome:
    delta = case["delta"]
    recs = [(off, (spec["rle"][0], spec["rle"][1]) if "rle" in spec else driver.file_bytes(spec)) for off, spec in case["records"]]
    blob = ips.build(recs)
    expected = [(off + delta, (bytes([p[0]]) * p[1]) if isinstance(p, tuple) else p) for off, p in recs]
    if any(_near_host(o, len(d)) for o, d in expected if o >= 0):
        return Outcome(skip="offset+delta outside the generated domain")
    below = [o for o, _ in expected if o < 0]
    out = Outcome(evals=3, nontrivial=True, labels=["headered", f"place:{case['place']}"] + (["lands-below-zero"] if below else []))
    dt = _delta_text(delta, case["form"])
    src = _program(case["place"], dt)
    files = {"p.ips": {"hex": blob.hex()}}
    out.sample = {"records": [[hex(o), (s if "hex" not in s else {"hex": s["hex"][:24]})] for o, s in case["records"]][:6], "directive": f".include_ips 'p.ips', {dt}", "place": case["place"]}
    host = driver.assemble_mem(_host_only(case["place"]))
    res = driver.assemble_mem(src, files=files)
    if not host.accepted:
        return Outcome(skip="host program rejected")
    if not res.accepted:
        return out.bad(f"headered:rejected:{res['exc'] or 'error'}@{res['frame']}", case, f"well-formed patch rejected: {res['status']} {res['exc']} {res.failure_text[:200]}\n{src}")
    calls = list(res["blocks"])
    for hb in host["blocks"]:
        if hb in calls:
            calls.remove(hb)
        else:
            return out.bad("host-output-changed", case, f"the surrounding program's own block {hb[0]:#x}:{hb[1].hex()} is missing/changed; calls {driver.blocks_json(res['blocks'], 16)}")
    if [(o, bytes(d)) for o, d in calls] != expected:
        out.bad("headered:writer-calls", case, f"records handed to the writer {[(o, len(d)) for o, d in calls][:8]}, expected (offset+delta, in order) {[(o, len(d)) for o, d in expected][:8]}\n{src}")
    # as a patch for a headered ROM (copier-header option: +0x200) every record is representable again
    f = driver.assemble_file_api(src, fmt="ips", copier=True, files=files)
    if f["status"] != "ok" or f["rc"] not in (0, None):
        out.bad("headered:copier-patch-refused", case, f"with the copier-header option every offset is >= 0, but: {f['status']} rc={f['rc']} {f['exc']} {f['msg'][:160]}\n{src}")
    else:
        try:
            parsed = ips.parse(f["output"] or b"")
        except ips.IpsError as e:
            parsed = None
            out.bad("headered:copier-patch-unparseable", case, f"output patch: {e}\n{src}")
        if parsed is not None:
            want_img = ips.apply([(o + 0x200, d) for o, d in list(res["blocks"])])
            if ips.apply([(o, d) for o, d, _ in parsed]) != want_img or want_img != ips.apply([(o + 0x200, d) for o, d in expected + list(host["blocks"])]):
                out.bad("headered:copier-patch-effect", case, f"output patch records {[(hex(o), len(d)) for o, d, _ in parsed][:8]}; expected the records at offset+delta+0x200: {[(hex(o + 0x200), len(d)) for o, d in expected][:8]}\n{src}")
    if below:
        # without it the records below zero cannot be represented: refused, never dropped or wrapped
        f = driver.assemble_file_api(src, fmt="ips", copier=False, files=files)
        if f["status"] == "ok" and f["rc"] in (0, None):
            out.bad("headered:negative-offset-accepted", case, f"records at {below[:4]} cannot be written to an IPS file, yet the patch was produced ({len(f['output'] or b'')} bytes)\n{src}")
    return out


ESSENTIAL = {"rle": 0.2, "delta!=0": 0.4}
