"""C19 — assemblies are independent of each other and repeatable (histories in one process vs alone)."""
from __future__ import annotations

import concurrent.futures as cf
import json
import random

import hypothesis
from hypothesis import HealthCheck, Phase, settings, strategies as st
from hypothesis.stateful import RuleBasedStateMachine, precondition, rule, run_state_machine_as_test

from vlib import add_repo_to_path, driver, progen, render
from vlib.runner import Outcome

add_repo_to_path()

PROPERTY = "C19"
LEVEL = "exploration"
TECHNIQUE = "Hypothesis RuleBasedStateMachine over histories of assemblies (valid, failing at every stage, custom .map, tables, shared macro / symbol names, different ROM types and entry points) executed in one fresh interpreter, compared step by step with the same job run alone in its own fresh interpreter"
RULE = (
    "a per-seed pool of jobs = (program, entry point in {string API, assemble_as_patch, assemble, in-process CLI}, rom type): generated valid programs (LoROM / HiROM), programs installing custom .map mappings, "
    "programs defining macros / symbols / tables / named scopes whose names other programs use without defining, programs failing at scan / parse / code generation / label pass / emission, programs using .include.  Histories = sequences of "
    "2-25 jobs (with immediate repetitions) drawn by a rule-based state machine; each history runs in ONE fresh interpreter.  Oracle: status, error text, blocks, labels, probed symbols / output file of every step equal the result of the same "
    "job alone in a fresh process (baselines computed once per job).  Non-trivial = a history containing a .map program or a failing program before a valid job that shares names with them; distinct by history."
)
LEVEL_TEXT = "Model-based stateful exploration where the model is 'the same job alone in a fresh process'; every history is a pure function of its job list."
LEVEL_NOTE = "Trusted: the fresh-process executor (vlib/driver.fresh_process). Each assembly uses a new Program (re-using one Program shares its resolver by design: docs/python_usage.md). Error texts are compared after normalising object addresses and scratch paths."
DESIGN_REF = "DESIGN.md §3 C19"
ASSUMPTIONS = ["a new Program per assembly"]

TABLE = "41=A\n42=B\n4344=CD\n"
TABLE2 = "61=A\n62=B\n"


def selftest() -> None:
    r = driver.fresh_process([{"src": "*=0x008000\n.db 1\n", "entry": "mem"}, {"src": "$", "entry": "mem"}])
    assert r[0]["status"] == "ok" and r[0]["blocks"] == [[0, "01"]] and r[1]["status"] != "ok", r


def build_pool(seed: int, tier: str):
    rng = random.Random(seed * 7919 + 13)
    jobs = []

    def add(kind, src, rom="low", files=None, entries=("mem",), probes=()):
        for e in entries:
            jobs.append({"kind": kind, "src": src, "rom": rom, "files": files or {}, "entry": e, "probes": list(probes), "argv": ["-f", "ips", "-m", rom]})

    all_entries = ("mem", "file_ips", "file_sfc", "cli")
    n_gen = 6 if tier == "quick" else 24
    for i in range(n_gen):
        prof = progen.Profile(max_stmts=8, reloc_ram=False, big_incbin=False, incbin=False)
        case = progen.generate(rng, prof)
        src, inc, _ = render.render(case["ir"])
        add("valid-generated", src, case["rom"], {**case["files"], **inc}, entries=("mem", rng.choice(all_entries[1:])) if tier == "quick" else all_entries)
    # custom mappings: the same addresses mean other offsets than under LoROM / HiROM
    for ident, first, last, win, mask, org in ((1, 0x10, 0x1F, "0x0000, 0xffff", "0x10000", 0x128000), (3, 0x00, 0x0F, "0x8000, 0xffff", "0x8000", 0x058123), (2, 0x80, 0x8F, "0x0000, 0xffff", "0x10000", 0x81FFFE)):
        src = (f".map identifier={ident} bank_range=0x{first:02x}, 0x{last:02x} addr_range={win} mask={mask}\n.map identifier=9 bank_range=0x7e, 0x7f addr_range=0x0000, 0xffff mask=0x10000 writable=1\n"
               f"*=0x{org:06x}\nlb_m:\n.dl lb_m\n.db 1, 2, 3\nlb_n:\n.dl lb_n\n")
        add("custom-map", src, entries=("mem", "file_ips") if tier == "quick" else all_entries)
    # different custom mappings of the SAME banks and addresses (anything cached per address must not survive an assembly)
    for tag, win, mask in (("a", "0x8000, 0xffff", "0x8000"), ("b", "0x0000, 0xffff", "0x10000")):
        src = (f".map identifier=1 bank_range=0x00, 0x3f addr_range={win} mask={mask} mirror_bank_range=0x80, 0xbf\n"
               f"*=0x018000\nlb_m:\n.dl lb_m\n*=0x02fffe\nlb_n:\n.dl lb_n, lb_n\n*=0x838000\n.db 7\n")
        add("custom-map-same-addresses-" + tag, src, entries=("mem", "file_ips") if tier == "quick" else all_entries)
    # every branch mnemonic, backward and forward, under each kind of mapping (what an instruction needs to know about the
    # mapping is asked of the program it is assembled in)
    br = "lb_t:\nnop\n" + "".join(f"{m} lb_t\n{m} lb_u\n" for m in ("bra", "bne", "beq", "bcc", "bcs", "bmi", "bpl")) + "lb_u:\nrts\n"
    add("branches-low", "*=0x128010\n" + br, "low", entries=("mem", "file_ips", "cli"))
    add("branches-high", "*=0xd28010\n" + br + "*=0x41ff80\n" + br.replace("lb_", "lc_"), "high", entries=("mem", "file_sfc", "cli"))
    add("branches-custom-map-64k", ".map identifier=1 bank_range=0x10, 0x1f addr_range=0x0000, 0xffff mask=0x10000\n*=0x128010\n" + br + "*=0x130040\n" + br.replace("lb_", "lc_"), entries=("mem", "file_ips"))
    add("branches-custom-map-32k", ".map identifier=4 bank_range=0x10, 0x1f addr_range=0x8000, 0xffff mask=0x8000\n*=0x128010\n" + br, entries=("mem", "cli"))
    # probes that are sensitive to a leaked mapping / symbol / macro / table
    add("probe-low", "*=0x128000\nlb_p:\n.dl lb_p\n*=0x058123\n.dl lb_p\n*=0x81fffe\nlb_q:\n.dl lb_q, lb_q\n", "low", entries=all_entries, probes=["lb_p", "lb_q"])
    add("probe-high", "*=0xd28000\nlb_p:\n.dl lb_p\n*=0x41fffe\nlb_q:\n.dl lb_q, lb_q\n", "high", entries=all_entries, probes=["lb_p", "lb_q"])
    add("probe-unmapped-in-low", "*=0x700000\n.db 1\n", "low", entries=("mem", "file_ips"))
    add("probe-unmapped-in-high", "*=0x808000\n.db 1\n", "high", entries=("mem", "file_ips", "cli"))
    add("probe-unmapped-in-high-after-code", "*=0xC08000\n.db 1\n*=0x208000\n.db 2\n", "high", entries=("mem", "cli"))
    add("probe-unmapped-in-low2", "*=0x008000\n.db 1\n", "low2", entries=("mem", "file_ips"))
    add("valid-low2", "*=0x818000\nlb_v:\n.dl lb_v\n*=0xfe8000\n.db 3\n", "low2", entries=("mem", "file_sfc"))
    add("valid-high-ram-reloc", "*=0x418000\n.db 1\n@=0x7e2000\nlb_r:\n.dl lb_r\n", "high", entries=("mem", "cli"))
    add("defines-shared", "k_shared := 5\nk_eq = 7\n.macro m_shared(p_sx) {\n.db p_sx, 0xaa\n}\n.scope sc_shared {\n*=0x008000\nlb_s:\nm_shared(k_shared)\n}\n.dl sc_shared.lb_s\n", "low", entries=all_entries)
    add("uses-shared-undefined", "*=0x008000\n.db k_shared\n", "low", entries=("mem", "file_ips", "cli"))
    add("uses-macro-undefined", "*=0x008000\nm_shared(1)\n", "low", entries=("mem", "file_sfc"))
    add("uses-scope-undefined", "*=0x008000\n.dl sc_shared.lb_s\n", "low", entries=("mem",))
    add("if-on-shared", "*=0x008000\n.if k_shared {\n.db 1\n} else {\n.db 0\n}\n", "low", entries=("mem", "cli"))
    add("table-user", "*=0x008000\n.table 't.tbl'\n.text 'ABCD'\n", "low", {"t.tbl": TABLE}, entries=("mem", "file_ips"))
    add("table-user-2", "*=0x008000\n.table 't.tbl'\n.text 'ABCD'\n", "low", {"t.tbl": TABLE2}, entries=("mem",))
    add("text-without-table", "*=0x008000\n.text 'AB'\n", "low", entries=("mem", "file_ips"))
    add("include-user", "*=0x018000\n.include 'part.s'\n.dl lb_inc\n", "low", {"part.s": "lb_inc:\n.db 9\n"}, entries=("mem", "cli"))
    add("include-other-content", "*=0x018000\n.include 'part.s'\n.dl lb_inc\n", "low", {"part.s": ".db 1, 2\nlb_inc:\n"}, entries=("mem",))
    add("incbin-user", "*=0x018000\n.incbin 'blob.bin'\nlb_after:\n.dl lb_after, blob_bin, blob_bin__size\n", "low", {"blob.bin": {"hex": "0102030405"}}, entries=("mem", "file_ips"))
    add("incbin-other-content", "*=0x018000\n.incbin 'blob.bin'\nlb_after:\n.dl lb_after, blob_bin, blob_bin__size\n", "low", {"blob.bin": {"pat": [5, 300]}}, entries=("mem", "cli"))
    add("fail-codegen-after-incbin", "*=0x018000\n.incbin 'blob.bin'\nm_undefined_zz(1)\n", "low", {"blob.bin": {"hex": "0a0b0c"}}, entries=("mem", "cli"))
    add("fail-missing-table-after-incbin-and-include", "*=0x018000\n.incbin 'blob.bin'\n.include 'part.s'\n.table 'nope.tbl'\n", "low", {"blob.bin": {"hex": "0a0b0c"}, "part.s": "lb_inc:\n.db 9\n"}, entries=("mem", "file_ips"))
    add("incbin-twice", "*=0x018000\n{\n.incbin 'blob.bin'\n.dl blob_bin\n}\n{\n.incbin 'blob.bin'\n.dl blob_bin, blob_bin__size\n}\n", "low", {"blob.bin": {"hex": "0102"}}, entries=("mem", "file_sfc"))
    add("ips-user", "*=0x018000\n.db 1\n.include_ips 'p.ips', 0\n", "low", {"p.ips": {"hex": (b"PATCH" + b"\x02\x00\x00\x00\x02ab" + b"EOF").hex()}}, entries=("mem",))
    add("ips-other-content", "*=0x018000\n.db 1\n.include_ips 'p.ips', 0\n", "low", {"p.ips": {"hex": (b"PATCH" + b"\x03\x00\x00\x00\x00\x00\x04\x7e" + b"EOF").hex()}}, entries=("mem", "file_ips"))
    # failures at every stage
    add("fail-scan", "*=0x008000\n.db 1\n$\n", "low", entries=("mem", "file_ips", "cli"))
    add("fail-scan-string", "k_shared := 9\n.macro m_shared(p_sx) {\n.db 0x55\n}\n*=0x008000\n.ascii 'abc\n", "low", entries=("mem", "cli"))
    add("fail-parse", "k_shared := 9\n*=0x008000\nlda #\n", "low", entries=("mem", "file_sfc"))
    add("fail-codegen", "k_shared := 9\n.macro m_shared(p_sx) {\n.db 0x66\n}\n*=0x008000\nm_undefined_zz(1)\n", "low", entries=("mem", "file_ips"))
    add("fail-label-pass", "k_shared := 9\n*=0x008000\nlb_1:\nlda lb_fw_zz\nlb_fw_zz:\n", "low", entries=("mem", "cli"))
    add("fail-emission", "k_shared := 9\n.table 't.tbl'\n*=0x008000\n.db 1, 2\nlda.w undef_zz\n", "low", {"t.tbl": TABLE2}, entries=("mem", "file_ips", "cli"))
    add("fail-branch", "*=0x008000\nlb_b:\n.ascii '" + "y" * 200 + "'\nbra lb_b\n", "high" if False else "low", entries=("mem",))
    add("fail-map-then-error", ".map identifier=1 bank_range=0x00, 0x3f addr_range=0x0000, 0xffff mask=0x10000\n*=0x008000\n.db undef_zz\n", "low", entries=("mem", "file_ips"))
    add("fail-missing-include", "*=0x008000\n.include 'nope.s'\n", "low", entries=("mem",))
    # failures INSIDE an included file whose path other jobs include too
    add("fail-parse-inside-include", "*=0x018000\n.include 'part.s'\n.dl lb_inc\n", "low", {"part.s": "lb_inc:\nlda #\n"}, entries=("mem", "file_ips"))
    add("fail-scan-inside-include", "*=0x018000\n.include 'part.s'\n.dl lb_inc\n", "low", {"part.s": "lb_inc:\n.ascii 'abc\n"}, entries=("mem", "cli"))
    add("fail-inside-nested-include", "*=0x018000\n.include 'outer.s'\n", "low", {"outer.s": ".db 1\n.include 'part.s'\n", "part.s": "lb_inc:\n$\n"}, entries=("mem",))
    add("nested-include-user", "*=0x018000\n.include 'outer.s'\n.dl lb_inc\n", "low", {"outer.s": ".db 1\n.include 'part.s'\n", "part.s": "lb_inc:\n.db 7\n"}, entries=("mem", "file_sfc"))
    add("fail-codegen-inside-include", "*=0x018000\n.include 'part.s'\n", "low", {"part.s": "lb_inc:\nm_nope_zz(1)\n"}, entries=("mem",))
    # degenerate constructs: bodies / files / arguments that expand to nothing, and programs that are sensitive to what such a
    # construct "contains" (anything that stands for "no code" must not be shared between assemblies)
    add("empty-include-first", ".include 'part.s'\n*=0x018000\n.db 0xaa, 0xbb\nlb_e:\n.dl lb_e\n", "low", {"part.s": "; nothing here\n"}, entries=("mem", "file_ips"))
    add("empty-include-in-body", "*=0x028000\n{\n.include 'part.s'\n.db 0xcc\n}\n.scope sc_e {\n.include 'part.s'\nlb_f:\n.db 0xdd\n}\n", "low", {"part.s": ""}, entries=("mem", "cli"))
    add("empty-block-argument-first", ".macro m_wrap(p_blk) {\n{{p_blk}}\n.db 0x77\nlb_w:\n}\n*=0x038000\nm_wrap({\n})\nm_wrap({\n.db 1\n})\n", "low", entries=("mem", "file_sfc"))
    add("empty-constructs", "*=0x008000\n.macro m_hook() {\n}\n.db 0x11\nm_hook()\n{\n}\n.scope sc_n {\n}\n.if 1 {\n}\n.if 0 {\n.db 9\n} else {\n}\n.for i_e := 0, 2 {\n}\nm_hook()\n.db 0x22\nlb_end:\n.dl lb_end\n",
        "low", entries=all_entries, probes=["lb_end"])
    # more ways to fail: their messages are results too
    add("fail-unknown-keyword", "*=0x008000\n.dbx 1, 2\n", "low", entries=("mem", "cli"))
    add("fail-upper-case-keyword", "*=0x008000\n.DW 0x1234\n", "low", entries=("mem", "file_ips"))
    add("fail-bad-suffix", "*=0x008000\nlda.q 5\n", "low", entries=("mem", "cli"))
    add("fail-bad-index", "*=0x008000\nlda 5,q\n", "low", entries=("mem",))
    add("fail-unknown-mnemonic", "*=0x008000\nxyz 5\n", "low", entries=("mem", "file_sfc"))
    add("fail-unsupported-mode", "*=0x008000\nnop #0\n", "low", entries=("mem", "cli"))
    add("fail-too-few-arguments", "*=0x008000\n.macro m_two(p_1, p_2) {\n.db p_1, p_2\n}\nm_two(1)\n", "low", entries=("mem",))
    # a large assembly (thousands of tokens, statements and labels) followed by a probe that needs the interpreter's whole
    # stack: process-wide limits and caches that a big program bumps must not change what a later program can do
    big = "*=0x018000\n" + "".join(f"lb_big{i}:\n.db " + ", ".join(f"0x{(i * 7 + j) & 0xFF:02x}" for j in range(40)) + "\n" for i in range(150)) + ".dl lb_big149\n"
    add("big-program", big, "low", entries=("mem", "file_ips"))
    deep = "*=0x008000\n.macro m_rep(p_n) {\n.db p_n & 0xff\n.if p_n {\nm_rep(p_n - 1)\n}\n}\n"
    add("deep-recursion-within-limits", deep + "m_rep(120)\nlb_done:\n.dl lb_done\n", "low", entries=("mem", "cli"), probes=["lb_done"])
    add("deep-recursion-beyond-the-interpreter-limit", deep + "m_rep(400)\n", "low", entries=("mem", "file_ips"))
    add("empty-source", "", "low", entries=("mem", "file_ips"))
    add("comment-only-source", "; just a comment\n/* and a block */\n", "low", entries=("mem", "cli"))
    for j, job in enumerate(jobs):
        job["id"] = j
    return jobs


_POOLS: dict = {}
_BASE: dict = {}


def pool(seed, tier):
    key = (seed, tier)
    if key not in _POOLS:
        _POOLS[key] = build_pool(seed, tier)
    return _POOLS[key]


def _strip(job):
    return {k: job[k] for k in ("src", "rom", "files", "entry", "probes", "argv")}


def baseline(seed, tier, jid):
    key = (seed, tier, jid)
    if key not in _BASE:
        _BASE[key] = driver.fresh_process([_strip(pool(seed, tier)[jid])])[0]
    return _BASE[key]


def precompute(seed, tier):
    jobs = pool(seed, tier)
    todo = [j["id"] for j in jobs if (seed, tier, j["id"]) not in _BASE]
    with cf.ThreadPoolExecutor(16) as ex:
        for jid, res in zip(todo, ex.map(lambda i: driver.fresh_process([_strip(jobs[i])])[0], todo)):
            _BASE[(seed, tier, jid)] = res


def custom_units(tier, seed):
    precompute(seed, tier)  # in the parent, before the workers are forked: they inherit the baselines
    n = 25 if tier == "quick" else 1250
    return [{"shard": s, "n": n, "tier": tier} for s in range(16)]


SENSITIVE = {"deep-recursion-within-limits", "deep-recursion-beyond-the-interpreter-limit", "nested-include-user", "custom-map-same-addresses-a", "custom-map-same-addresses-b", "custom-map", "incbin-user", "incbin-other-content", "ips-user", "ips-other-content", "probe-low", "probe-high", "probe-unmapped-in-low", "uses-shared-undefined", "uses-macro-undefined", "uses-scope-undefined", "if-on-shared", "text-without-table", "table-user", "table-user-2",
             "include-user", "include-other-content", "valid-generated"}


def run_case(case) -> Outcome:
    seed, tier, hist = case["pool_seed"], case["tier"], case["history"]
    jobs = pool(seed, tier)
    hist = [h for h in hist if 0 <= h < len(jobs)]
    if not hist:
        return Outcome(skip="empty history")
    # the history runs under another string-hash seed than the baselines (PYTHONHASHSEED 0): a result that depends on set /
    # dict iteration order is not a function of the source, the files and the options
    got = driver.fresh_process([_strip(jobs[h]) for h in hist], timeout=600, hashseed=str(1 + sum(hist) % 7))
    kinds = [jobs[h]["kind"] for h in hist]
    out = Outcome(evals=len(hist), labels=[])
    disturbing = False
    nt = False
    for i, (h, g) in enumerate(zip(hist, got)):
        k = jobs[h]["kind"]
        if (k.startswith("fail") or k.startswith("custom-map") or k == "defines-shared"):
            disturbing = True
        elif disturbing and k in SENSITIVE:
            nt = True
        want = baseline(seed, tier, h)
        if g != want:
            diff = [f for f in want if g.get(f) != want.get(f)]
            prev = kinds[i - 1] if i else "-"
            out.bad(f"history-changed:{k}:{jobs[h]['entry']}:{'+'.join(diff)[:40]}", case,
                    f"step {i} ({k}, entry {jobs[h]['entry']}, rom {jobs[h]['rom']}) differs from the same job alone in a fresh process in {diff}:\n  alone  : {json.dumps({f: want.get(f) for f in diff})[:500]}\n"
                    f"  history: {json.dumps({f: g.get(f) for f in diff})[:500]}\n  jobs before it: {kinds[:i]}\n--- source\n{jobs[h]['src'][:600]}")
            break
    out.nontrivial = nt
    if any(k.startswith("custom-map") for k in kinds):
        out.labels.append("has-custom-map")
    if any(k.startswith("fail") for k in kinds):
        out.labels.append("has-failing")
    if any(hist[i] == hist[i - 1] for i in range(1, len(hist))):
        out.labels.append("has-repetition")
    out.labels.append(f"len:{min(25, len(hist)) // 5 * 5}+")
    out.sample = {"history": [f"{jobs[h]['kind']}/{jobs[h]['entry']}/{jobs[h]['rom']}" for h in hist]}
    return out


class HistoryMachine(RuleBasedStateMachine):
    acc = None
    seed = 1
    tier = "quick"
    njobs = 1

    def __init__(self):
        super().__init__()
        self.hist: list[int] = []

    @precondition(lambda self: len(self.hist) < 25)
    @rule(data=st.data())
    def assemble_job(self, data):
        self.hist.append(data.draw(st.integers(0, type(self).njobs - 1)))

    @precondition(lambda self: 0 < len(self.hist) < 25)
    @rule()
    def repeat_last(self):
        self.hist.append(self.hist[-1])

    @precondition(lambda self: len(self.hist) >= 25)
    @rule()
    def done(self):
        pass

    def teardown(self):
        if len(self.hist) >= 2:
            case = {"pool_seed": type(self).seed, "tier": type(self).tier, "history": list(self.hist)}
            type(self).acc.add(case, run_case(case))


def run_custom(payload, tier, seed, acc):
    HistoryMachine.acc = acc
    HistoryMachine.seed = seed
    HistoryMachine.tier = tier
    HistoryMachine.njobs = len(pool(seed, tier))
    machine = hypothesis.seed(seed * 1000 + payload["shard"])(HistoryMachine)
    run_state_machine_as_test(
        machine,
        settings=settings(max_examples=payload["n"], stateful_step_count=25, deadline=None, database=None, phases=[Phase.generate],
                          report_multiple_bugs=False, suppress_health_check=list(HealthCheck)))


ESSENTIAL = {"has-custom-map": 0.3, "has-failing": 0.5}
