"""C11 — IPS output is well formed and patches exactly the written blocks (stateful histories)."""
from __future__ import annotations

import io

import hypothesis
from hypothesis import HealthCheck, Phase, settings, strategies as st
from hypothesis.stateful import RuleBasedStateMachine, invariant, precondition, rule, run_state_machine_as_test

from vlib import add_repo_to_path, driver
from vlib.model import ips
from vlib.runner import Outcome

add_repo_to_path()

PROPERTY = "C11"
LEVEL = "exploration"
TECHNIQUE = "Hypothesis RuleBasedStateMachine over write histories + exhaustive single-write boundary enumeration, differential against an independent strict IPS reader/applier"
RULE = (
    "histories of IPSWriter calls (begin, write_block(addr, data)*, end) drawn by a rule-based state machine: lengths from "
    "{0,1,2,k*65535+{-1,0,1} (k<=3), random<=70000}, addresses from {0, random, around 0x454F46, around 2^24, >=2^24, negative}, contents "
    "patterned / constant / containing 'EOF' and 'PATCH', copier header on/off; plus the exhaustive grid lengths {0..3,65533..65538,131068..131073} "
    "x 12 boundary addresses x copier.  Oracle: the file parses completely with the strict reader, every record valid, normalised write runs == "
    "normalised expected writes (addr+0x200*copier, data) in order; a refusal (exception) is accepted only for unrepresentable writes. "
    "Non-trivial = history with a split block (>65535 bytes), or an address within 0x200 of a format limit (0x454F46, 2^24, 0), or >=3 writes; distinct by case hash."
)
LEVEL_TEXT = ("Model-based stateful exploration: every generated write history is applied to the real IPSWriter and the produced file is read back by an "
              "independent strict IPS reader and compared with the expected writes; the split/limit boundary grid is enumerated completely.")
LEVEL_NOTE = ("Trusted: vlib/model/ips.py (self-tested round trip + truncation). A refusal is accepted only when the block starts below 0, touches an address >= 2^24, or starts exactly at "
              "0x454F46 ('EOF'); anything else must produce exactly the expected effect.")
DESIGN_REF = "DESIGN.md §3 C11, §2.6"
ASSUMPTIONS = ["IPS format as documented (3-byte offset, 2-byte size, RLE when size==0, 'EOF' terminator)"]

EOF_OFF = ips.EOF_OFFSET
LIMIT = 1 << 24


def selftest() -> None:
    ips.selftest()


def _data(spec) -> bytes:
    return driver.file_bytes(spec)


def _refusal_ok(start: int, n: int) -> bool:
    """a block is unrepresentable iff it starts below 0, touches an address >= 2^24, or starts exactly
    on the 'EOF' marker offset (a record there ends the patch).  A longer block that merely *crosses*
    0x454F46 is representable (the split point can be chosen freely)."""
    if n == 0:
        return False
    return start < 0 or start + n > LIMIT or start == EOF_OFF


def run_case(case) -> Outcome:
    from a816.writers import IPSWriter

    from vlib import watchdog

    copier = bool(case["copier"])
    shift = 0x200 if copier else 0
    f = io.BytesIO()
    w = IPSWriter(f, copier)
    expected: list[tuple[int, bytes]] = []
    labels = ["copier" if copier else "plain"]
    nontrivial = False
    refused = None
    nwrites = 0
    try:
        w.begin()
    except Exception as e:
        return Outcome(labels=labels).bad("begin-raised", case, f"begin() raised {type(e).__name__}: {e}")
    for op in case["ops"]:
        addr, spec = op
        data = _data(spec)
        n = len(data)
        start = addr + shift
        nwrites += 1
        if n > 0xFFFF:
            nontrivial = True
            labels.append("split")
        if n and (min(abs(start - EOF_OFF), abs(start + n - EOF_OFF)) <= 0x200 or abs(start + n - LIMIT) <= 0x201 or start <= 0x200 or start >= LIMIT - 0x201):
            nontrivial = True
            labels.append("near-limit")
        if n == 0:
            labels.append("empty-block")
        pos_before = f.tell()
        # a writer that never comes back has not written the file: a deterministic budget (line events inside the writer; a block
        # needs a few dozen) instead of the runner's wall-clock backstop, which would only call the case inconclusive
        st_, val = watchdog.Watchdog(50_000, cpu_seconds=20.0).run(w.write_block, data, addr)
        if st_ == "budget":
            return Outcome(labels=labels, nontrivial=True).bad(
                "writer-does-not-terminate", case, f"write_block(len={n}, addr={addr:#x}, copier={copier}) did not return within 50 000 line events ({val}); {f.tell() - pos_before} bytes written meanwhile")
        if st_ == "exception":
            if _refusal_ok(start, n):
                refused = str(val).split(":")[0]
                labels.append("refused-unrepresentable")
                # the history stops here; what was written before the refused block is still checked
                f.seek(pos_before)
                f.truncate()
                break
            return Outcome(labels=labels, nontrivial=nontrivial).bad(
                "refused-representable", case,
                f"write_block(len={n}, addr={addr:#x}, copier={copier}) raised {val} although the write is representable")
        expected.append((start, data))
    if nwrites >= 3:
        nontrivial = True
        labels.append("writes>=3")
    out = Outcome(labels=labels, nontrivial=nontrivial)
    out.sample = {"copier": copier, "ops": [[f"{a:#x}", s] for a, s in case["ops"]][:6], "refused": refused}
    try:
        w.end()
    except Exception as e:
        return out.bad("end-raised", case, f"end() raised {type(e).__name__}: {e}")
    blob = f.getvalue()
    try:
        recs = ips.parse(blob)
    except ips.IpsError as e:
        where = "eof-marker-offset" if any(s <= EOF_OFF < s + len(d) for s, d in expected) else "malformed"
        return out.bad(f"unparseable:{where}", case, f"strict IPS reader rejects the produced file: {e}; expected writes {[(hex(s), len(d)) for s, d in expected]}")
    for off, d, rle in recs:
        if len(d) == 0:
            return out.bad("empty-record", case, f"record at {off:#x} has no data (RLE count 0 / size 0)")
    got = ips.normalise([(o, d) for o, d, _ in recs])
    exp = ips.normalise(expected)
    if got != exp:
        bad_unrep = any(s < 0 or s + len(d) > LIMIT for s, d in expected)
        sig = "wrapped-unrepresentable" if bad_unrep else "effect-mismatch"
        return out.bad(sig, case, "patch effect differs: got runs %s expected %s" % (
            [(hex(o), len(d)) for o, d in got][:8], [(hex(o), len(d)) for o, d in exp][:8]))
    if not case["ops"] or all(len(_data(s)) == 0 for _, s in case["ops"]):
        if blob != b"PATCHEOF":
            return out.bad("empty-history-not-empty-patch", case, f"file is {blob[:40]!r}")
    # records must tile each block exactly once: total record bytes == total expected bytes
    if sum(len(d) for _, d, _ in recs) != sum(len(d) for _, d in expected):
        return out.bad("records-overlap", case, "records cover some byte more than once")
    return out


# ----------------------------------------------------------------------------------------------
# exhaustive boundary grid

GRID_LENS = [0, 1, 2, 3] + list(range(65533, 65539)) + list(range(131068, 131074))
GRID_ADDRS = [0, 1, 0x1FF, 0x200, EOF_OFF - 65536, EOF_OFF - 65535, EOF_OFF - 1, EOF_OFF + 1, LIMIT - 131073, LIMIT - 65536, LIMIT - 3, 0x123456]


def enum_units(tier, seed):
    cases = []
    for copier in (False, True):
        for a in GRID_ADDRS:
            for n in GRID_LENS:
                cases.append({"copier": copier, "ops": [[a - (0x200 if copier and a >= 0x200 else 0), {"pat": [n % 250, n]}]]})
    # the format's hard limits, one write each
    for copier in (False, True):
        sh = 0x200 if copier else 0
        for a, n in [(EOF_OFF - sh, 1), (EOF_OFF - sh, 70000), (EOF_OFF - sh - 65535, 65536), (EOF_OFF - sh - 65535, 65535),
                     (LIMIT - sh, 1), (LIMIT - sh - 1, 2), (LIMIT - sh - 1, 1), (LIMIT - sh + 5, 3), (-1 - sh, 4), (-sh, 4), (LIMIT * 2 - sh, 1),
                     (EOF_OFF - sh - 2 * 65535, 3 * 65535)]:
            cases.append({"copier": copier, "ops": [[a, {"pat": [7, n]}]]})
    units = [{"cases": cases[i::16]} for i in range(16)]
    return {"units": units, "exhaustive": False}


def unit_cases(unit):
    return unit["cases"]


# ----------------------------------------------------------------------------------------------
# stateful machine

LEN = st.one_of(
    st.sampled_from([0, 1, 2, 3, 65534, 65535, 65536, 2 * 65535 - 1, 2 * 65535, 2 * 65535 + 1, 3 * 65535 - 1, 3 * 65535, 3 * 65535 + 1]),
    st.integers(0, 300), st.integers(0, 70000))


def _addr(copier: bool):
    sh = 0x200 if copier else 0
    near_eof = st.sampled_from([0, 1, 2, 65534, 65535, 65536, 2 * 65535, -1]).map(lambda d: EOF_OFF - sh - d)
    near_lim = st.sampled_from([1, 2, 3, 0x200, 0x201, 65535, 65536, 70000]).map(lambda d: LIMIT - sh - d)
    inside = st.one_of(st.just(0), st.integers(0, 0x3FFFFF), st.integers(0, LIMIT - 140000), near_eof, near_eof, near_lim)
    outside = st.one_of(st.integers(LIMIT - 0x300, LIMIT + 0x300), st.integers(LIMIT, 4 * LIMIT), st.integers(-0x300, 0x300))
    return st.one_of(inside, inside, inside, inside, inside, inside, inside, outside)


CONTENT = st.sampled_from(["pat", "rep", "eof", "patch"])


def _spec(kind: str, n: int, k: int):
    if kind == "pat":
        return {"pat": [k, n]}
    if kind == "rep":
        return {"rep": [k & 0xFF, n]}
    word = b"EOF" if kind == "eof" else b"PATCH"
    if n <= 64:
        return {"hex": (word * (n // len(word) + 1))[:n].hex()}
    return {"pat": [k, n]}


class IpsMachine(RuleBasedStateMachine):
    """Applies every rule to the REAL writer; the invariant reads back the file so far."""

    acc = None  # set by run_custom
    budget_bytes = 400_000

    def __init__(self) -> None:
        super().__init__()
        self.copier = None
        self.ops: list = []
        self.dead = False
        self.bytes = 0
        self.checked = 0

    @precondition(lambda self: self.copier is None)
    @rule(copier=st.booleans())
    def begin(self, copier):
        self.copier = copier

    @precondition(lambda self: self.copier is not None and not self.dead and self.bytes < self.budget_bytes)
    @rule(data=st.data(), n=LEN, kind=CONTENT, k=st.integers(0, 250))
    def write(self, data, n, kind, k):
        addr = data.draw(_addr(self.copier))
        self.ops.append([addr, _spec(kind, n, k)])
        self.bytes += n

    @precondition(lambda self: self.copier is not None and (self.dead or self.bytes >= self.budget_bytes))
    @rule()
    def finished(self):
        """history is over (refusal, first failure or size budget): nothing more is applied"""

    @invariant()
    def file_so_far_patches_exactly_the_writes(self):
        if self.copier is None or self.dead or self.checked == len(self.ops):
            return
        self.checked = len(self.ops)
        case = {"copier": self.copier, "ops": list(self.ops)}
        out = run_case(case)
        if out.violations or "refused-unrepresentable" in out.labels:
            self.dead = True  # the history stops at a refusal / first failure
        self.last = (case, out)

    def teardown(self):
        if self.copier is None:
            return
        case = {"copier": self.copier, "ops": list(self.ops)}
        if getattr(self, "last", None) and self.last[0] == case:
            out = self.last[1]
        else:
            out = run_case(case)
        type(self).acc.add(case, out)


def custom_units(tier, seed):
    n = 60 if tier == "quick" else 3000
    return [{"shard": s, "n": n} for s in range(16)]


def run_custom(payload, tier, seed, acc):
    IpsMachine.acc = acc
    machine = hypothesis.seed(seed * 1000 + payload["shard"])(IpsMachine)
    run_state_machine_as_test(
        machine,
        settings=settings(max_examples=payload["n"], stateful_step_count=8, deadline=None, database=None,
                          phases=[Phase.generate], report_multiple_bugs=False,
                          suppress_health_check=list(HealthCheck)),
    )
