"""C14 — a failed assembly is never reported as success (fault enumeration)."""
from __future__ import annotations

import copy
import random

from vlib import add_repo_to_path, driver, gen, progen, render, twins
from vlib.model import ips as IPS
from vlib.runner import Outcome

add_repo_to_path()

PROPERTY = "C14"
LEVEL = "fault_enumeration"
TECHNIQUE = "fault enumeration over Hypothesis-seeded generated valid programs: every class of definite error injected at every always-assembled statement position (main file and included files) x every entry point (string API, assemble, assemble_as_patch, in-process CLI, sampled real CLI subprocess); un-faulted hosts must succeed everywhere with output equal to the in-memory result"
RULE = (
    "hosts: generated valid programs (C03 profile, some split into .include files).  Faults: invalid character, unterminated string, truncated operand `lda #`, unbalanced `}`, unknown keyword, undefined symbol in a sized operand / "
    "data directive / = definition, undefined macro, too few macro arguments, undefined addressing mode `nop #0`, undefined width `rep.w #1` / `lda.l #1`, out-of-range branch, unmapped `*=`, `*=` / `@=` to an address of 2^24 or more or to a negative one, missing .include / .incbin / .table / "
    ".include_ips file, unterminated /* comment — inserted at every statement boundary that is certainly assembled (top level, blocks, named scopes, included files, literal-taken .if branches, literal-bounded loop bodies, bodies of applied macros).  Oracle: "
    "faulted => string API returns an error or raises; assemble / assemble_as_patch return non-zero or raise; CLI exit status != 0 and no success announcement.  Un-faulted => None / 0 / exit 0 and the output file equals the in-memory "
    "result.  Non-trivial = fault position > 0 and entry point other than the string API; distinct = distinct (host, fault, position, entry) tuples, counted."
)
LEVEL_TEXT = "Fault enumeration: every error class x every always-assembled statement position x every entry point for each generated host, plus the positive direction (success really means everything was written)."
LEVEL_NOTE = "Trusted: vlib/model/ips.py to read the patch output. Real subprocess CLI is sampled (quick: 1 host in 8)."
DESIGN_REF = "DESIGN.md §3 C14"
ASSUMPTIONS = ["faults are only those the repository itself treats as errors in the string API"]

PROFILE = progen.Profile(max_stmts=10, includes=True, reloc_ram=False, big_incbin=False, loops=True, macros=True)
SHARD_MIN = 3
ENTRIES = ["string", "assemble", "patch", "cli", "cli-sfc"]

FAULTS = {
    "invalid-character": ["$"],
    "unterminated-string": [".ascii 'abc"],
    "unterminated-string-escaped-quote": [".ascii 'abc\\'"],           # the only quote after the opening one is escaped
    "unterminated-string-two-escaped-quotes": [".text 'a\\'b\\'"],
    "unterminated-string-backslash": [".ascii 'abc\\"],
    "truncated-operand": ["lda #"],
    "unbalanced-brace": ["}"],
    "unknown-keyword": [".bogus 1"],
    "undefined-symbol-operand": ["lda.w undef_zz"],
    "undefined-symbol-data": [".dw 1, undef_zz"],
    "undefined-symbol-definition": ["k_bad = undef_zz + 1"],
    # the same undefined name where the value is needed at other times: while the program is expanded (:=, .if, .for, *=), as a
    # macro argument, and in the late (=) re-definition of a name that already has a value
    "undefined-symbol-assign": ["k_bad := undef_zz + 1"],
    "undefined-symbol-redefinition": ["k_flt_r := 1", "k_flt_r = undef_zz + 1"],
    "undefined-symbol-redefinition-used": ["k_flt_s := 1", ".db k_flt_s", "k_flt_s = undef_zz", ".db k_flt_s"],
    "undefined-symbol-loop-bound": [".for i_f := 0, undef_zz {", ".db 1", "}"],
    "undefined-symbol-position": ["*=undef_zz"],
    "undefined-symbol-macro-argument": [".macro m_flt5(p_ff) {", ".db p_ff", "}", "m_flt5(undef_zz)"],
    "undefined-argument-named-like-another-parameter": [".macro m_flt6(p_fg, p_fh) {", ".db p_fg, p_fh", "}", "m_flt6(1, p_fg)"],
    "undefined-argument-named-like-a-label-of-the-body": [".macro m_flt7(p_fi) {", "lb_loc_f:", ".dl p_fi", "}", "m_flt7(lb_loc_f)"],
    "undefined-argument-named-like-a-constant-of-the-body": [".macro m_flt8(p_fj) {", "k_loc_f := 3", ".db p_fj", "}", "m_flt8(k_loc_f)"],
    "undefined-macro": ["m_undefined(1)"],
    "too-few-macro-arguments": [".macro m_flt(p_fa, p_fb) {", ".db p_fa, p_fb", "}", "m_flt(1)"],
    "too-few-macro-arguments-unused-parameter": [".macro m_flt2(p_fc, p_fd) {", ".db p_fc", "}", "m_flt2(1)"],
    "no-macro-argument-unused-parameter": [".macro m_flt4(p_fe) {", "nop", "}", "m_flt4()"],
    "undefined-addressing-mode": ["nop #0"],
    "implied-instruction-with-operand": ["rts 0"],
    "implied-instruction-with-register-name": ["rts a"],
    "implied-instruction-with-upper-case-register-name": ["clc A"],
    "implied-instruction-with-index-name": ["pha x"],
    "undefined-width-rep": ["rep.w #1"],
    "undefined-width-lda": ["lda.l #1"],
    "numeric-size-suffix": ["lda.32 0x10"],
    "numeric-size-suffix-zero": ["ldx.0 #1"],
    "numeric-size-suffix-small": ["sta.4 0x10"],
    "undefined-width-jmp-byte": ["jmp.b 0x10"],
    "undefined-width-indexed-y-byte": ["lda.b 0x10,y"],
    "undefined-width-pea-byte": ["pea.b 0x12"],
    "branch-out-of-range": ["lb_flt_t:", ".ascii '" + "x" * 200 + "'", "bra lb_flt_t"],
    "unmapped-position": None,  # rom dependent
    "position-beyond-24-bits": None,  # rom dependent: an address whose low 24 bits would be a mapped ROM address
    "position-beyond-24-bits-expression": None,
    "relocation-beyond-24-bits": None,
    "negative-position": ["*=0 - 0x8000", ".db 1"],
    "runs-past-the-last-mapped-byte": None,  # rom dependent: two bytes written from the last byte of the last ROM bank
    "runs-far-past-the-last-mapped-byte": None,
    "missing-include": [".include 'no_such_file.s'"],
    "missing-incbin": [".incbin 'no_such_file.bin'"],
    "missing-table": [".table 'no_such_file.tbl'"],
    "missing-ips": [".include_ips 'no_such_file.ips', 0"],
    "unterminated-comment": ["/* never closed"],
    "branch-to-ram": ["bra 0x7e0000"],
    "ips-without-header": [".include_ips 'bad_header.ips', 0"],
    "ips-truncated": [".include_ips 'truncated.ips', 0"],
    "undefined-macro-defined-by-other-programs": None,  # host dependent
    # more syntax errors: a missing closing / opening delimiter, a missing separator, a missing operand
    "missing-close-paren-data": [".db (1 + 2"],
    "missing-close-paren-operand": ["lda.w (0x10 + 2"],
    "missing-close-bracket": ["lda [0x10"],
    "scope-without-brace": [".scope sc_flt", ".db 1", "}"],
    "if-without-brace": [".if 1", ".db 1", "}"],
    "for-without-comma": [".for i_f := 0 3 {", "}"],
    "for-without-assign": [".for i_f 0, 3 {", "}"],
    "macro-without-parens": [".macro m_flt3 {", "}"],
    "assign-without-value": ["k_flt :="],
    "equals-without-value": ["k_flt ="],
    "data-double-comma": [".db 1,, 2"],
    "operand-trailing-comma": ["lda 5,"],
    "include-ips-without-delta": [".include_ips 'truncated.ips'"],
    "splice-not-closed": ["{{p_zz"],
    "macro-call-not-closed": ["m_undefined(1, 2"],
    "text-without-string": [".text 5"],
    # the same kinds of error far to the right on a long line (beyond columns 256 and 1024)
    "missing-comma-far-right": [".db " + ", ".join(f"0x{i:02x}" for i in range(70)) + " 0x46"],
    "missing-close-paren-far-right": [".dw " + ", ".join(f"0x{i:04x}" for i in range(200)) + ", (1 + 2"],
    "invalid-character-far-right": [".db " + ", ".join(f"0x{i:02x}" for i in range(70)) + ", $"],
    "undefined-symbol-far-right": [".dl " + ", ".join(f"0x{i:06x}" for i in range(150)) + ", undef_zz"],
    # (not definite errors, hence not injected: `.if undefined_name { }` is the false branch by design (generate_if); a stray `else { }` right after an .if block is its else branch; a line that
    #  starts with a binary operator continues the expression of the previous line -- newlines are plain white space)
}
FAULT_FILES = {"bad_header.ips": {"hex": (b"PATCX" + b"\x02\x00\x00\x00\x01a" + b"EOF").hex()},
               "truncated.ips": {"hex": (b"PATCH" + b"\x02\x00\x00\x00\x05ab").hex()}}


def fault_lines(cls, rom, ir=None):
    if cls == "undefined-macro-defined-by-other-programs":
        # hosts define m_a, m_b, m_c in that order: a name this host does not define (but earlier assemblies of the same
        # process did) is still an undefined macro
        defined = set()
        twins.walk(ir or [], lambda st, im: defined.add(st["n"]) if st["k"] == "macro" else None)
        free = [n for n in ("m_a", "m_b", "m_c") if n not in defined]
        return [f"{free[0]}(1, 2, 3)"] if free else None
    if cls == "unmapped-position":
        return ["*=0x700000" if rom == "low" else "*=0x001234"]
    base = 0x008000 if rom == "low" else 0xC08000
    if cls == "runs-past-the-last-mapped-byte":
        return ["*=0x6FFFFF" if rom == "low" else "*=0xFFFFFF", ".dw 0x1234"]
    if cls == "runs-far-past-the-last-mapped-byte":
        return ["*=0x6FFFFE" if rom == "low" else "*=0xFFFFFE", "lda.w 0x1234", "nop", ".dl 0x123456"]
    if cls == "position-beyond-24-bits":
        return [f"*=0x{0x1000000 + base:x}", ".db 1"]
    if cls == "position-beyond-24-bits-expression":
        return [f"*=0x{base:06x} + 0x3000000", ".db 1"]
    if cls == "relocation-beyond-24-bits":
        return [f"@=0x{0x2000000 + base + 0x800000 * (rom == 'low'):x}", ".db 1"]
    return FAULTS[cls]


def selftest() -> None:
    IPS.selftest()


_DEFINITE = {}


def definite(cls, rom) -> bool:
    """the class fails on its own in the string API on this tree (else it is not a 'definite error')"""
    key = (cls, rom)
    if key not in _DEFINITE:
        org = "*=0x008000\n" if rom == "low" else "*=0xC08000\n"
        res = driver.assemble_mem(org + "\n".join(fault_lines(cls, rom)) + "\n", rom=rom)
        _DEFINITE[key] = not res.accepted
    return _DEFINITE[key]


def _build(rng):
    case = progen.generate(rng, PROFILE)
    case["t"] = "host"
    case["sub"] = rng.random() < 0.125
    case["pick"] = rng.randint(0, 1 << 30)
    return case


def strategy(tier):
    return gen.seeded(_build)


def hyp_examples(tier):
    return 24 if tier == "quick" else 1500


def insertion_points(ir):
    """(steps, index) for every statement boundary where a statement is certainly assembled: top level, blocks, named
    scopes, included files, the taken branch of a .if whose condition is a literal, loop bodies with literal bounds
    and at least one iteration, bodies of macros applied from such a place"""
    from checks.c17 import insertion_points as pts17

    return [(steps, index) for steps, index, certain in pts17(ir, loops=True) if certain]


def inject(ir, steps, index, lines):
    ir = copy.deepcopy(ir)
    twins.navigate(ir, steps).insert(index, {"k": "raw", "lines": list(lines)})
    return ir


def _argv(rom, fmt):
    return ["-f", fmt, "-m", rom]


def run_entry(entry, src, rom, files):
    """-> (reported_failure: bool, detail, output bytes or None)"""
    if entry == "string":
        r = driver.assemble_mem(src, rom=rom, files=files)
        return (not r.accepted), f"{r['status']} {r['exc']} {r.failure_text[:100]}", r["blocks"]
    if entry == "assemble":
        r = driver.assemble_file_api(src, fmt="sfc", mapping=rom, files=files)
        failed = r["status"] == "exc" or (r["rc"] not in (0,))
        return failed, f"rc={r['rc']} {r['exc']} {r['msg'][:100]}", r["output"]
    if entry == "patch":
        r = driver.assemble_file_api(src, fmt="ips", mapping=rom, files=files)
        failed = r["status"] == "exc" or (r["rc"] not in (0,))
        return failed, f"rc={r['rc']} {r['exc']} {r['msg'][:100]}", r["output"]
    if entry in ("cli", "cli-sfc"):
        r = driver.cli_inproc(_argv(rom, "ips" if entry == "cli" else "sfc"), src, files=files)
        failed = r["status"] == "exc" or r["rc"] != 0
        if not failed and False:
            pass
        if failed and "Success" in r["log"]:
            return False, f"exit {r['rc']} but the log announces success: {r['log'][-200:]}", r["output"]
        return failed, f"exit={r['rc']} {r['exc']} {r['msg'][:100]}", r["output"]
    if entry == "cli-subprocess":
        r = driver.cli_subprocess(_argv(rom, "ips"), src, files=files)
        if r["status"] == "timeout":
            return True, "timeout (inconclusive)", None
        failed = r["rc"] != 0
        if failed and "Success" in r["log"]:
            return False, f"exit {r['rc']} but the log announces success", r["output"]
        return failed, f"exit={r['rc']} {r['log'][-160:]}", r["output"]
    raise ValueError(entry)


def _ips_effect(blob):
    return IPS.normalise([(o, d) for o, d, _ in IPS.parse(blob)])


def check_positive(out, case, src, files, rom, entries):
    """un-faulted host: success everywhere and the file output equals the in-memory result"""
    mem = driver.assemble_mem(src, rom=rom, files=files)
    if not mem.accepted:
        return False
    want = IPS.normalise(mem["blocks"])
    img = driver.image(mem["blocks"])
    for e in entries:
        if e == "string":
            continue
        failed, detail, output = run_entry(e, src, rom, files)
        out.evals += 1
        sub = {"t": "one", "rom": rom, "ir": case["ir"], "files": case.get("files") or {}, "fault": None, "entry": e}
        if failed:
            out.bad(f"valid-program-failed:{e}", sub, f"the in-memory API assembles this program, entry point {e} reports failure: {detail}\n{src}")
            continue
        if output is None:
            out.bad(f"no-output:{e}", sub, f"{e} reported success but wrote no output file\n{src}")
            continue
        try:
            if e in ("assemble", "cli-sfc"):
                ok = all(img[o] == output[o] for o in img if o < len(output)) and (not img or max(img) < len(output))
            else:
                ok = _ips_effect(output) == want
        except Exception as ex:
            ok = False
            detail = f"unreadable output: {ex}"
        if not ok:
            out.bad(f"success-but-output-differs:{e}", sub, f"{e} returned success but its output is not the in-memory result ({detail})\n{src}")
    return True


def run_case(case) -> Outcome:
    rom = case["rom"]
    files = case.get("files") or {}
    if case["t"] == "one":
        out = Outcome(evals=0, nontrivial=True, labels=[])
        ir = case["ir"]
        if case.get("fault") is None:
            src, inc, _ = render.render(ir)
            check_positive(out, case, src, {**files, **inc}, rom, [case["entry"]])
            return out
        fl = fault_lines(case["fault"], rom, ir)
        if fl is None:
            return Outcome(skip="fault not applicable to this host")
        fir = inject(ir, tuple(tuple(s) for s in case["steps"]), case["index"], fl)
        src, inc, _ = render.render(fir)
        failed, detail, _ = run_entry(case["entry"], src, rom, {**files, **inc, **FAULT_FILES})
        out.evals = 1
        if not failed:
            out.bad(f"failure-reported-as-success:{case['entry']}:{case['fault']}", case,
                    f"fault {case['fault']} injected at {case['steps']}[{case['index']}]: entry point {case['entry']} reports success ({detail})\n{src}")
        return out
    # ---- a host: enumerate everything ------------------------------------------------------------------------
    ir = case["ir"]
    out = Outcome(evals=0, nontrivial=0, labels=[f"rom:{rom}"])
    src, inc, _ = render.render(ir)
    entries = ENTRIES + (["cli-subprocess"] if case.get("sub") else [])
    if not check_positive(out, case, src, {**files, **inc}, rom, entries):
        out.skip = "host not accepted by the in-memory API"
        return out
    out.labels.append("host-valid")
    if inc:
        out.labels.append("host-with-includes")
    pts = insertion_points(ir)
    rng = random.Random(case.get("pick", 0))
    classes = list(FAULTS)  # every listed class is a definite error by the property's own list
    nt = 0
    for cls in classes:
        lines = fault_lines(cls, rom, ir)
        if lines is None:
            continue
        for steps, index in pts:
            fir = inject(ir, steps, index, lines)
            fsrc, finc, _ = render.render(fir)
            ff = {**files, **finc, **FAULT_FILES}
            for e in entries:
                if e == "cli-subprocess" and rng.random() > 0.03:
                    continue
                failed, detail, _ = run_entry(e, fsrc, rom, ff)
                out.evals += 1
                if (index > 0 or steps) and e != "string":
                    nt += 1
                if not failed:
                    sub = {"t": "one", "rom": rom, "ir": ir, "files": files, "fault": cls, "steps": [list(s) for s in steps], "index": index, "entry": e}
                    out.bad(f"failure-reported-as-success:{e}:{cls}", sub,
                            f"fault {cls} injected at {list(steps)}[{index}]: entry point {e} reports success ({detail})\n{fsrc}")
    out.nontrivial = nt
    out.labels += [f"fault:{c}" for c in classes]
    out.sample = {"rom": rom, "host": src.splitlines()[:20], "insertion_points": len(pts), "fault_classes": len(classes), "entries": entries}
    return out


ESSENTIAL = {"host-valid": 0.5}
