"""C07 — data directives emit the exact little-endian bytes of their values and occupy that size."""
from __future__ import annotations

from hypothesis import strategies as st

from vlib import add_repo_to_path, driver, gen
from vlib.model import busmodel
from vlib.model import expr as X
from vlib.runner import Outcome

add_repo_to_path()

PROPERTY = "C07"
LEVEL = "exploration"
TECHNIQUE = "Hypothesis-generated directive sequences (values as expression trees with boundary/negative/over-wide magnitudes, forward/backward symbols, binary files crossing bank ends) compared byte-for-byte with a direct little-endian model and the textbook bus model"
RULE = (
    "programs [`*=P` + a 1-2 byte .db/.dw/.ascii block], `*=ORG`, 1-4 directives from {.db,.dw,.dl,.pointer (1-40 values), .ascii, .incbin}, each followed by a self-pointer label (`lb: .dl lb`), ORG drawn from window "
    "starts / middles / the last bytes before a bank end in primary and mirror banks of LoROM and HiROM; values are literals (0, +-1, 0x7F..0x101, 0xFFFF..0x10001, 0xFFFFFF..0x1000001, up to 2^40, negative), "
    "expressions, := constants, backward and forward labels; files have lengths {0,1,2,0x7FFF,0x8000,0x8001,0xFFFF,0x10000, random<=70000}.  Oracle: flattened writes == expected "
    "(offset, byte) list; incbin start/size symbols read back through .dl probes; label after each directive == start advanced by its byte count.  Non-trivial = a value wider than its field, "
    "a negative value, a forward reference, or a directive/file that crosses a bank end; distinct by case hash."
)
LEVEL_TEXT = "Differential exploration: every generated directive sequence is compared byte-for-byte and address-for-address with a direct model (value mod 256^w little-endian; file bytes verbatim; textbook bus advance)."
LEVEL_NOTE = "Trusted: vlib/model/busmodel.py, vlib/model/expr.py. `\\'` inside .ascii may stand for both characters or for the quote alone (either reading accepted for the whole program); zero-length .incbin only checks the symbols; programs never run past the last mapped bank."
DESIGN_REF = "DESIGN.md §3 C07"
ASSUMPTIONS = ["directive-context expressions use only operators that context lexes (* + - << >> &)"]

WIDTH = {"db": 1, "dw": 2, "dl": 3, "pointer": 3}
ASCII_ALPHABET = "".join(chr(c) for c in range(0x20, 0x7F) if chr(c) not in "'\\") + "\t\t"  # every printable character, and TAB


def selftest() -> None:
    busmodel.selftest()
    X.selftest()


VALUE_LITS = [0, 1, 0x7F, 0x80, 0xFF, 0x100, 0x101, 0xFFFF, 0x10000, 0x10001, 0xFFFFFF, 0x1000000, 0x1000001, 0xFFFFFFFF, 1 << 40]


def _value_tree(rng):
    k = rng.random()
    if k < 0.3:
        v = rng.choice(VALUE_LITS) if rng.random() < 0.6 else rng.randint(0, 1 << 40)
        return ["lit", v, "x"]
    if k < 0.5:
        v = rng.choice([1, 2, 0x80, 0x81, 0x100, 0x8000, 0x8001, 0x800000, 0x1000000]) if rng.random() < 0.6 else rng.randint(1, 1 << 33)
        return ["neg", ["lit", v, "d"]]
    if k < 0.7:
        return ["id", rng.choice(["k_a", "k_b", "lb_bk", "lb_fw"])]
    return gen.r_expr(rng, names=["k_a", "k_b", "lb_bk", "lb_fw"], max_leaves=5, ops=["*", "+", "-", "<<", ">>", "&"], inv=False, lit_max=1 << 34)


FILE_LENS = [0, 1, 2, 3, 0x7FFF, 0x8000, 0x8001, 0xFFFF, 0x10000]


def _items(rng):
    items = []
    nbin = 0
    for _ in range(rng.randint(1, 4)):
        kind = rng.choice(["db", "dw", "dl", "pointer", "db", "dw", "dl", "ascii", "incbin"])
        if kind in WIDTH:
            cnt = rng.choice([1, 1, 2, 3, 5, 8, 17, 40])
            items.append({"d": kind, "vals": [_value_tree(rng) for _ in range(cnt)]})
        elif kind == "ascii":
            txt = "".join(rng.choice(ASCII_ALPHABET) for _ in range(rng.randint(1, 40)))
            if rng.random() < 0.15:
                # what `.text` reads as markup is plain text to `.ascii`: every character is emitted as its own byte
                i = rng.randint(0, len(txt))
                txt = txt[:i] + rng.choice(["[0x41]", "[0x7]", "[0xfF]", "[0x00][0x31]", "[0x", "0x10]", "[end]", "{{ a }}", "/* c */", "; c"]) + txt[i:]
            if rng.random() < 0.25:
                # an escaped quote at the start, in the middle or as the very last character of the text
                q = "\\'"
                where = rng.choice(["start", "mid", "end", "end", "only"])
                txt = q + txt if where == "start" else txt[: len(txt) // 2] + q + txt[len(txt) // 2:] if where == "mid" else txt + q if where == "end" else q
            if rng.random() < 0.12:
                # a character without an ASCII byte: nothing is emitted for it (or the program is rejected); either way the
                # directive occupies exactly what it emits
                i = rng.randint(0, len(txt))
                while i > 0 and txt[i - 1] == "\\":
                    i -= 1  # never between a backslash and the quote it escapes
                txt = txt[:i] + rng.choice(["\u00e9", "\u00dc", "\u00bd", "\u6f22\u5b57"]) + txt[i:]
            it_ = {"d": "ascii", "s": txt}
            if all(c.isalnum() or c == " " for c in txt) and rng.random() < 0.5:
                # the same string is first written as table-encoded .text (a table that maps every character to another byte is
                # loaded): .ascii still emits the ASCII bytes
                it_["after_text"] = True
            items.append(it_)
        else:
            k = rng.random()
            ln = rng.choice(FILE_LENS) if k < 0.4 else rng.randint(0, 300) if k < 0.7 else rng.randint(0, 70000)
            if ln <= 48 and rng.random() < 0.5:
                spec = {"hex": bytes(rng.randrange(256) for _ in range(ln)).hex()}
            else:
                spec = {"pat": [rng.randint(0, 250), ln]}
            fname = rng.choice([f"data{nbin}.bin", f"data{nbin}.bin", f"sub/blob{nbin}.dat", f"sub/deep/x{nbin}.b.in"])
            if rng.random() < 0.4:
                # different files with the same base name in different directories (their symbols carry the whole path)
                fname = rng.choice(["", "", "sub/", "sub/deep/", "gfx/", "./", "sub/../", "./gfx/"]) + rng.choice(["title.bin", "blob.dat", "my.font.bin"])
                import os.path as _op

                if any(it["d"] == "incbin" and _op.normpath(it["f"]) == _op.normpath(fname) for it in items):
                    fname = f"u{nbin}/" + fname.replace("./", "", 1) if fname.startswith("./") else f"u{nbin}/" + fname
            items.append({"d": "incbin", "f": fname, "spec": spec})
            nbin += 1
    return items


def _build_case(rng):
    rom = rng.choice(["low", "high"])
    model = busmodel.builtin(rom)
    r = rng.choice(model.rom_ranges())
    nbanks = model.range_bytes(r) // r.size
    bank = r.first + rng.randint(0, max(0, nbanks - 6))
    k = rng.random()
    off = r.win_lo if k < 0.2 else rng.randint(r.win_lo, r.win_hi) if k < 0.5 else r.win_hi - rng.randint(0, 12)
    poke = None
    if rng.random() < 0.4:
        # a block of exactly one (or two) bytes ended by the next *=
        pb = r.first + nbanks - 1 - rng.randint(0, 1)
        poke = {"a": (pb << 16) | rng.randint(r.win_lo, r.win_hi - 4), "d": rng.choice(["db", "db", "db", "dw", "ascii1"]), "v": rng.randint(0, 255)}
    return {"rom": rom, "org": (bank << 16) | off, "k_a": rng.choice([0, 1, 0xFF, 0x1234, 0x12345, 0xFFFFFF]),
            "k_b": rng.randint(0, 1 << 26), "items": _items(rng), "poke": poke}


WRAPS = ["block", "scope", "if", "else", "loop", "macro", "loop-in-macro", "block-in-loop", "include-in-loop"]


def _build_wrapped(rng):
    """one directive inside a body that is expanded once or several times: every expansion emits the directive's bytes,
    and the names an .incbin defines belong to the expansion they are in"""
    rom = rng.choice(["low", "high"])
    model = busmodel.builtin(rom)
    r = model.rom_ranges()[0]
    bank = r.first + rng.randint(0, 8)
    off = rng.choice([r.win_lo, r.win_hi - rng.randint(0, 40), rng.randint(r.win_lo, r.win_hi)])
    d = rng.choice(["db", "dw", "dl", "pointer", "ascii", "incbin", "incbin"])
    case = {"t": "wrapped", "rom": rom, "org": (bank << 16) | off, "wrap": rng.choice(WRAPS), "d": d, "reps": rng.choice([1, 2, 2, 3, 5]),
            "base": rng.choice([0, 1, 0xFE, 0xFFFE, 0x12345, 0xFFFFFF]), "step": rng.choice([1, 0x101, 0x10000, -1]), "n": rng.choice([1, 2, 5])}
    if d == "ascii":
        case["s"] = "".join(rng.choice(ASCII_ALPHABET) for _ in range(rng.randint(1, 20)))
    if d == "incbin":
        ln = rng.choice([0, 1, 2, 3, 255, 256, rng.randint(0, 300), rng.randint(0, 40000)])
        case["f"] = rng.choice(["blob.bin", "sub/blob.dat"])
        case["spec"] = {"pat": [rng.randint(0, 250), ln]}
    return case


def _build_any(rng):
    return _build_wrapped(rng) if rng.random() < 0.1 else _build_case(rng)


def strategy(tier):
    return gen.seeded(_build_any)


def hyp_examples(tier):
    return 12000 if tier == "quick" else 300000


_CONV = ["verbatim"]


def _ascii_bytes(text: str) -> bytes:
    """bytes of a quoted text.  The statement does not say whether `\\'` stands for the two characters or for the quote
    alone: either reading is accepted, applied to the whole program (see run_case)"""
    return (text.replace("\\'", "'") if _CONV[0] == "unescaped" else text).encode("ascii", errors="ignore")


def _after_text(item) -> bool:
    return bool(item.get("after_text")) and item["s"].isascii() and all(c.isalnum() or c == " " for c in item["s"])


def _size(item) -> int:
    if item["d"] in WIDTH:
        return WIDTH[item["d"]] * len(item["vals"])
    if item["d"] == "ascii":
        return len(_ascii_bytes(item["s"])) * (2 if _after_text(item) else 1)
    return len(driver.file_bytes(item["spec"]))


def _run_wrapped(case) -> Outcome:
    rom, org, wrap, d, reps = case["rom"], case["org"], case["wrap"], case["d"], case["reps"]
    model = busmodel.builtin(rom)
    repeated = wrap in ("loop", "macro", "loop-in-macro", "block-in-loop", "include-in-loop")
    if not repeated:
        reps = 1
    var = {"loop": "i_w", "macro": "p_w", "loop-in-macro": "i_w", "block-in-loop": "i_w", "include-in-loop": "i_w"}.get(wrap)
    files = {}
    # ---- the body ------------------------------------------------------------------------------------
    if d in WIDTH:
        cells = [f"0x{case['base']:x} + {j}" + (f" + {var} * {case['step']}" if var else "") for j in range(case["n"])]
        body = [f".{d} " + ", ".join(cells)]
    elif d == "ascii":
        body = [f".ascii '{case['s']}'"]
    else:
        files[case["f"]] = case["spec"]
        body = [f".incbin '{case['f']}'"]
    body += ["lb_in:", ".dl lb_in"]
    if d == "incbin":
        sym = case["f"].replace("/", "_").replace(".", "_")
        body += [f".dl {sym}, {sym}__size"]
    # ---- the wrapper ---------------------------------------------------------------------------------
    B = "\n".join(body) + "\n"
    if wrap == "block":
        text = "{\n" + B + "}\n"
    elif wrap == "scope":
        text = ".scope sc_w {\n" + B + "}\n"
    elif wrap == "if":
        text = ".if 1 {\n" + B + "}\n"
    elif wrap == "else":
        text = ".if 0 {\n.db 0xEE\n} else {\n" + B + "}\n"
    elif wrap == "loop":
        text = f".for i_w := 0, {reps} {{\n" + B + "}\n"
    elif wrap == "macro":
        text = ".macro m_w(p_w) {\n" + B + "}\n" + "".join(f"m_w({k})\n" for k in range(reps))
    elif wrap == "loop-in-macro":
        text = f".macro m_w(p_n) {{\n.for i_w := 0, p_n {{\n" + B + f"}}\n}}\nm_w({reps})\n"
    elif wrap == "block-in-loop":
        text = f".for i_w := 0, {reps} {{\n{{\n" + B + "}\n}\n"
    else:
        files["body.s"] = B
        text = f".for i_w := 0, {reps} {{\n.include 'body.s'\n}}\n"
    source = f"*=0x{org:06x}\n" + text + "lb_end:\n.dl lb_end\n"
    # ---- expected ------------------------------------------------------------------------------------
    expected = bytearray()
    a = org
    room = model.room(org)
    for k in range(reps):
        start = a
        if d in WIDTH:
            w = WIDTH[d]
            data = b"".join(((case["base"] + j + (k * case["step"] if var else 0)) & ((1 << (8 * w)) - 1)).to_bytes(w, "little") for j in range(case["n"]))
        elif d == "ascii":
            data = case["s"].encode("ascii")
        else:
            data = driver.file_bytes(case["spec"])
        if len(expected) + len(data) + 12 >= room:
            return Outcome(skip="program would run past the mapped range")
        expected += data
        a = model.advance(a, len(data))
        expected += a.to_bytes(3, "little")
        a = model.advance(a, 3)
        if d == "incbin":
            expected += start.to_bytes(3, "little") + (len(data) & 0xFFFFFF).to_bytes(3, "little")
            a = model.advance(a, 6)
    lb_end = a
    expected += a.to_bytes(3, "little")
    out = Outcome(evals=1, nontrivial=True, labels=[f"rom:{rom}", "wrapped", f"wrap:{wrap}", "dir:" + d] + (["incbin"] if d == "incbin" else []))
    out.sample = {"rom": rom, "source": source.splitlines()[:16], "files": {f: v for f, v in files.items() if not isinstance(v, str)}}
    res = driver.assemble_mem(source, rom=rom, files=files)
    if not res.accepted:
        return out.bad(f"wrapped:rejected:{wrap}:{res['exc'] or 'error'}@{res['frame']}", case, f"valid data program rejected: {res['status']} {res['exc']} {res.failure_text[:300]}\n{source[:600]}")
    got = driver.flatten(res["blocks"])
    phys0 = model.physical(org)
    want = [(phys0 + i, b) for i, b in enumerate(expected)]
    if got != want:
        idx = next((i for i, (g, w_) in enumerate(zip(got, want)) if g != w_), min(len(got), len(want)))
        per = len(expected) // reps if reps else 0
        out.bad(f"wrapped:{d}:{wrap}", case, f"first difference at byte #{idx} (expansion {idx // per if per else 0} of {reps}): got {got[idx] if idx < len(got) else None} "
                f"expected {want[idx] if idx < len(want) else None} (lengths {len(got)}/{len(want)})\n{source[:700]}")
    elif dict(res["labels"]).get("lb_end") != lb_end:
        out.bad(f"wrapped:final-label:{wrap}", case, f"lb_end = {dict(res['labels']).get('lb_end')} expected {lb_end:#x}\n{source[:500]}")
    return out


def run_case(case) -> Outcome:
    if case.get("t") == "wrapped":
        return _run_wrapped(case)
    _CONV[0] = "verbatim"
    out = _run_case(case)
    if out.violations and any(it["d"] == "ascii" and "\\'" in it["s"] for it in case["items"]):
        _CONV[0] = "unescaped"
        try:
            alt = _run_case(case)
        finally:
            _CONV[0] = "verbatim"
        if not alt.violations:
            alt.labels.append("escaped-quote:unescaped-reading")
            return alt
    return out


def _well_formed(text: str) -> bool:
    """every quote inside the text is escaped and the text does not end in a lone backslash (which would escape the
    closing delimiter): anything else is not a `.ascii 'text'` statement at all (shrinking can produce such texts)"""
    i = 0
    while i < len(text):
        if text[i] == "\\":
            if i + 1 >= len(text):
                return False
            i += 2
            continue
        if text[i] == "'" or text[i] == "\n":
            return False
        i += 1
    return True


def _run_case(case) -> Outcome:
    if any(it["d"] == "ascii" and not _well_formed(it["s"]) for it in case["items"]):
        return Outcome(skip="a quoted text with an unescaped quote (outside the generated domain)")
    rom, org = case["rom"], case["org"]
    model = busmodel.builtin(rom)
    items = case["items"]
    # ---- layout (sizes do not depend on values) -------------------------------------------------
    addr = org
    starts = []
    for it in items:
        starts.append(addr)
        addr = model.advance(addr, _size(it))
        addr = model.advance(addr, 3)  # self-pointer after each directive
    # trailing probes: for each incbin `.dl sym, sym__size` (6 bytes) then lb_fw
    nbin = sum(1 for it in items if it["d"] == "incbin")
    end_probe = addr
    lb_fw = model.advance(addr, 6 * nbin)
    total = sum(_size(it) + 3 for it in items) + 6 * nbin + 1
    if total >= model.room(org):
        return Outcome(skip="program would run past the mapped range")
    env = {"k_a": case["k_a"], "k_b": case["k_b"], "lb_bk": org, "lb_fw": lb_fw}
    # ---- source + expected bytes ------------------------------------------------------------------
    src = [f"k_a := 0x{case['k_a']:x}", f"k_b := 0x{case['k_b']:x}"]
    poke = case.get("poke")
    poke_writes = []
    if poke:
        src.append(f"*=0x{poke['a']:06x}")
        if poke["d"] == "ascii1":
            src.append(".ascii '" + "ABCxyz09"[poke["v"] % 8] + "'")
            pdata = "ABCxyz09"[poke["v"] % 8].encode()
        elif poke["d"] == "dw":
            src.append(f".dw 0x{poke['v']:x}")
            pdata = poke["v"].to_bytes(2, "little")
        else:
            src.append(f".db 0x{poke['v']:x}")
            pdata = bytes([poke["v"]])
        poke_writes = [(model.physical(poke["a"]) + i, b) for i, b in enumerate(pdata)]
    src += [f"*=0x{org:06x}", "lb_bk:"]
    expected = bytearray()
    files = {}
    tchars = sorted({c for it in items if it["d"] == "ascii" and _after_text(it) for c in it["s"]})
    if tchars:
        files["t7.tbl"] = "".join(f"{ord(c) ^ 0x80:02X}={c}\n" for c in tchars)
        src.insert(0, ".table 't7.tbl'")
    labels = [f"rom:{rom}"]
    nontrivial = False
    a = org
    phys0 = model.physical(org)
    for i, it in enumerate(items):
        kind = it["d"]
        if kind in WIDTH:
            w = WIDTH[kind]
            texts = []
            for raw in it["vals"]:
                tree, v = gen.repair(raw, env)
                texts.append(X.render(tree))
                expected += (v & ((1 << (8 * w)) - 1)).to_bytes(w, "little")
                if v < 0:
                    nontrivial = True
                    labels.append("negative")
                elif v >= 1 << (8 * w):
                    nontrivial = True
                    labels.append("wider-than-field")
                if "lb_fw" in X.idents(tree):
                    nontrivial = True
                    labels.append("forward-ref")
            src.append(f".{kind} " + ", ".join(texts))
        elif kind == "ascii":
            if _after_text(it):
                src.append(f".text '{it['s']}'")
                expected += bytes(ord(c) ^ 0x80 for c in it["s"])
                labels.append("ascii-after-text")
            src.append(f".ascii '{it['s']}'")
            expected += _ascii_bytes(it["s"])
            if "\\'" in it["s"]:
                labels.append("escaped-quote")
        else:
            data = driver.file_bytes(it["spec"])
            files[it["f"]] = it["spec"]
            src.append(f".incbin '{it['f']}'")
            expected += data
            labels.append("incbin")
        n = _size(it)
        if (a & 0xFFFF) + n > 0xFFFF + 1 or ((a & 0xFFFF) + n == 0x10000 and n > 0):
            pass
        if n > 0 and (model.advance(a, n - 1) >> 16) != (a >> 16):
            nontrivial = True
            labels.append("crosses-bank:" + kind)
        a = model.advance(a, n)
        src.append(f"lb_{i}:")
        src.append(f".dl lb_{i}")
        expected += a.to_bytes(3, "little")
        a = model.advance(a, 3)
        labels.append("dir:" + kind)
    k = 0
    for i, it in enumerate(items):
        if it["d"] == "incbin":
            base = it["f"].replace("/", "_").replace(".", "_")
            src.append(f".dl {base}, {base}__size")
            expected += starts[i].to_bytes(3, "little") + (len(driver.file_bytes(it["spec"])) & 0xFFFFFF).to_bytes(3, "little")
            k += 1
    src.append("lb_fw:")
    src.append(".db 0x60")
    expected += b"\x60"
    source = "\n".join(src) + "\n"
    out = Outcome(evals=1, nontrivial=nontrivial, labels=labels)
    out.sample = {"rom": rom, "source": [l[:100] for l in src[:14]], "files": {f: (s if "hex" not in s else {"hex": s["hex"][:32]}) for f, s in files.items()}}
    res = driver.assemble_mem(source, rom=rom, files=files)
    kinds = "+".join(sorted({it["d"] for it in items}))
    if not res.accepted and any(it["d"] == "ascii" and not it["s"].isascii() for it in items):
        out.labels.append("non-ascii:rejected")
        return out
    if any(it["d"] == "ascii" and not it["s"].isascii() for it in items):
        out.labels.append("non-ascii:dropped")
    if not res.accepted:
        return out.bad(f"rejected:{res['exc'] or 'error'}@{res['frame']}", case,
                       f"valid data program rejected: {res['status']} {res['exc']} {res.failure_text[:300]}\n{source[:600]}")
    got = driver.flatten(res["blocks"])
    want = poke_writes + [(phys0 + i, b) for i, b in enumerate(expected)]
    if got != want:
        # locate the first difference and attribute it to a directive
        idx = next((i for i, (g, w_) in enumerate(zip(got, want)) if g != w_), min(len(got), len(want)))
        if idx < len(poke_writes):
            return out.bad("short-block-before-next-position", case, f"the {len(poke_writes)}-byte block written before the next *= is missing or wrong: got {got[:3]} expected {want[:3]}\n{source[:400]}")
        idx -= len(poke_writes)
        got, want = got[len(poke_writes):], want[len(poke_writes):]
        pos, culprit = 0, "tail"
        for i, it in enumerate(items):
            n = _size(it)
            if idx < pos + n:
                culprit = it["d"] + ":bytes"
                break
            pos += n
            if idx < pos + 3:
                culprit = it["d"] + ":label-after"
                break
            pos += 3
        else:
            culprit = "incbin:symbols" if idx < pos + 6 * nbin else "tail"
        g = got[idx] if idx < len(got) else None
        w_ = want[idx] if idx < len(want) else None
        return out.bad(f"{culprit}", case,
                       f"first difference at byte #{idx}: got {g} expected {w_} (lengths {len(got)}/{len(want)})\n{source[:700]}")
    labs = dict(res["labels"])
    for i in range(len(items)):
        pass
    if labs.get("lb_fw") != lb_fw:
        out.bad("final-label", case, f"lb_fw = {labs.get('lb_fw')} expected {lb_fw:#x}\n{source[:500]}")
    return out


ESSENTIAL = {"incbin": 0.15, "forward-ref": 0.15, "negative": 0.15}
