"""C04 — address mapping laws (offsets, mirrors, advance) against the textbook bus model."""
from __future__ import annotations

from hypothesis import strategies as st

from vlib import add_repo_to_path
from vlib.model import busmodel
from vlib.runner import Outcome
from vlib import driver

add_repo_to_path()

PROPERTY = "C04"
LEVEL = "exploration"
TECHNIQUE = "exhaustive enumeration of 2^24 addresses x {LoROM,HiROM} + boundary-biased (address, increment) enumeration + Hypothesis-generated .map configurations, differential against an independent textbook bus model"
RULE = (
    "translation: every logical address 0..0xFFFFFF under LoROM and HiROM (thorough: all 2^24 x 2, quick: every bank x "
    "window edges +-2 and 64 seeded offsets) compared with the model (ROM in-window -> offset, mirror -> primary's offset, "
    "RAM -> None, unmapped -> rejected); advance: in-window ROM / RAM addresses x increments that stay in the mapped range "
    "((A+n) offset, same range, A+0==A, (A+m)+n==A+(m+n)); the same law through programs that start with `*=A` or with `@=A` (no *= before it) + filler + label; user maps: Hypothesis-drawn .map sets "
    "(32K windows, 64K windows, and 64K banks of which only 8000-FFFF is addressed) installed via Bus.map and via the .map directive.  Non-trivial = address within 2 bytes of a window edge, or a mirror bank, or an increment that "
    "crosses at least one bank, or any user-map probe; distinct by construction for the enumerated part, by case hash otherwise."
)
LEVEL_TEXT = ("Complete enumeration of the finite domain (every one of the 2^24 logical addresses under both built-in mappings in the "
              "thorough tier) plus boundary-biased (address, increment) pairs and generated .map configurations, each compared with an "
              "independent textbook model; for the built-in maps translation is decided exhaustively, advance and user maps by exploration.")
LEVEL_NOTE = "Trusted: vlib/model/busmodel.py (self-tested), CPython, Hypothesis. Increments leaving the mapped range and out-of-window LoROM addresses are outside the statement."
DESIGN_REF = "DESIGN.md §3 C04, §2.5"
ASSUMPTIONS = [
    "vlib/model/busmodel.py (textbook LoROM/HiROM arithmetic) is the oracle; self-tested on fixed points",
    "addresses below the LoROM window (offset < 0x8000 in a ROM bank) are outside the statement: counted, not asserted",
    "`.map writable=0` is not generated (pinned code treats any explicit writable= as RAM and the repo's own test relies on it)",
]


def selftest() -> None:
    busmodel.selftest()


def _bus(rom: str):
    from a816.symbols import BUS_MAPPING

    return BUS_MAPPING[driver.rom_type(rom)]


def _real_physical(bus, a: int):
    """('ok', physical) or ('rej', exc type)"""
    try:
        return ("ok", bus.get_address(a).physical)
    except Exception as e:
        return ("rej", type(e).__name__)


EDGE_OFFS = [0, 1, 2, 0x7FFD, 0x7FFE, 0x7FFF, 0x8000, 0x8001, 0x8002, 0xFFFD, 0xFFFE, 0xFFFF]


def _offsets(bank: int, seed: int, n: int):
    offs = list(EDGE_OFFS)
    offs += [((k * 0x9E37 + seed * 7919 + bank * 131 + 12345) & 0xFFFF) for k in range(n)]
    return offs


def enum_units(tier, seed):
    units = []
    for rom in ("low", "high"):
        for bank in range(256):
            units.append({"t": "xlate", "rom": rom, "bank": bank, "all": tier == "thorough", "seed": seed})
            units.append({"t": "adv", "rom": rom, "bank": bank, "dense": tier == "thorough", "seed": seed})
    return {"units": units, "exhaustive": tier == "thorough"}


def unit_cases(unit):
    yield unit


def hyp_examples(tier):
    return 400 if tier == "quick" else 20000


# ----------------------------------------------------------------------------------------------
# user maps


@st.composite
def usermaps(draw):
    specs = []
    cursor = draw(st.integers(0, 40))
    n = draw(st.integers(1, 4))
    ident = 1
    for _ in range(n):
        role = draw(st.sampled_from(["rom", "rom", "rommirror", "rommirror", "ram", "rammirror"]))
        length = draw(st.sampled_from([1, 1, 2, 3, 8, 16, 32, 48, 64, 65, 100, 126, 129, 200]))  # beyond 64 x 64K = 4 MiB and 128 x 32K too
        gap = draw(st.integers(0, 12))
        win = draw(st.sampled_from(["hi32", "hi32", "full64", "full64", "half64"]))
        if role in ("rommirror", "rammirror"):
            need = 2 * length + gap
        else:
            need = length
        if cursor + need > 256:
            break
        if role in ("rommirror", "rammirror"):
            a = (cursor, cursor + length - 1)
            b = (cursor + length + gap, cursor + 2 * length + gap - 1)
            if draw(st.booleans()):
                a, b = b, a
            # a mirrored RAM range (battery RAM seen at two bank ranges): both halves are RAM
            specs.append({"id": ident, "first": a[0], "last": a[1], "win": win if role == "rommirror" else "full64", "ram": role == "rammirror", "mirror": list(b)})
            cursor += need
        elif role == "rom":
            specs.append({"id": ident, "first": cursor, "last": cursor + length - 1, "win": win, "ram": False, "mirror": None})
            cursor += need
        else:
            specs.append({"id": ident, "first": cursor, "last": cursor + length - 1, "win": "full64", "ram": True, "mirror": None})
            cursor += need
        ident += 1
        cursor += draw(st.integers(0, 30))
    if not specs:
        specs = [{"id": 1, "first": 0, "last": 3, "win": "hi32", "ram": False, "mirror": None}]
    if draw(st.booleans()):
        # identifiers are only names: any distinct numbers (one a prefix of another, not ascending), declared in any order
        ids = draw(st.permutations([1, 10, 11, 100, 2, 16, 12, 0, 255, 21, 101]))
        for sp, i in zip(specs, ids):
            sp["id"] = i
        specs = list(draw(st.permutations(specs)))
    return specs


@st.composite
def umap_cases(draw):
    specs = draw(usermaps())
    model = busmodel.usermap(specs)
    probes = []
    for _ in range(draw(st.integers(1, 6))):
        r = draw(st.sampled_from(model.ranges))
        bank = draw(st.integers(r.first, r.last))
        off = draw(st.one_of(
            st.sampled_from([r.win_lo, r.win_lo + 1, r.win_hi - 2, r.win_hi - 1, r.win_hi]),
            st.integers(r.win_lo, r.win_hi)))
        a = (bank << 16) | off
        room = model.room(a)
        incs = []
        for _ in range(2):
            if room <= 1:
                incs.append(0)
            else:
                to_end = r.win_hi - off + 1
                cand = [0, 1, 2, 3, to_end - 1, to_end, to_end + 1, 0x7FFF, 0x8000, 0x8001, 0xFFFF, 0x10000, 0x10001]
                cand = [c for c in cand if 0 <= c < room]
                incs.append(draw(st.one_of(st.sampled_from(cand), st.integers(0, min(room - 1, 0x30000)))))
        probes.append([a, incs[0], incs[1]])
    # a few unmapped-bank probes
    unm = [b for b in (0, 0x3F, 0x70, 0x7E, 0xFF, draw(st.integers(0, 255))) if b not in model.lookup]
    via = draw(st.sampled_from(["api", "directive"]))
    return {"t": "umap", "specs": specs, "probes": probes, "unmapped": unm[:3], "via": via}


def strategy(tier):
    return umap_cases()


# ----------------------------------------------------------------------------------------------


def _map_directives(specs) -> str:
    # the same numbers in hexadecimal, decimal, binary or upper-case hexadecimal, chosen per map set
    style = sum(sp["first"] * 3 + sp["last"] for sp in specs) % 5
    return "\n".join(busmodel.map_line(sp, style) for sp in specs) + "\n"


def _install_api(specs):
    from a816.cpu.mapping import Bus

    bus = Bus("user")
    for s in specs:
        lo, hi, mask = busmodel.WINDOWS[s["win"]]
        bus.map(str(s["id"]), (s["first"], s["last"]), (lo, hi), mask, writeable=bool(s.get("ram")),
                mirror_bank_range=tuple(s["mirror"]) if s.get("mirror") else None)
    return bus


def _check_xlate(out, model, bus, rom_label, a, want_sub):
    kind = model.kind(a)
    real = _real_physical(bus, a)
    r = model.range_of(a)
    rname = r.name if r else "none"
    if r and rom_label.startswith("umap"):
        rname = "ram" if r.ram else "mirror" if r.mirror else "rom"
    if kind == "unmapped":
        if real[0] != "rej":
            out.bad(f"xlate:{rom_label}:unmapped-accepted", want_sub, f"address {a:#08x} is in an unmapped bank but translated to {real[1]}")
    elif kind == "ram":
        if real != ("ok", None):
            out.bad(f"xlate:{rom_label}:ram", want_sub, f"RAM address {a:#08x}: expected no file offset, got {real}")
    elif kind == "rom":
        exp = model.physical(a)
        if real != ("ok", exp):
            out.bad(f"xlate:{rom_label}:{rname}", want_sub, f"address {a:#08x}: expected offset {exp:#x}, got {real}")
    return kind


def _check_adv(out, model, bus, rom_label, a, m, n, want_sub):
    """A+m, (A+m)+n vs A+(m+n), A+0"""
    r = model.range_of(a)
    rname = r.name if not rom_label.startswith("umap") else ("ram" if r.ram else "mirror" if r.mirror else "rom")
    try:
        A = bus.get_address(a)
        x = A + m
        y = x + n
        z = A + (m + n)
        z0 = A + 0
        got = (x.logical_value, y.logical_value, z.logical_value, z0.logical_value)
        phys = (x.physical, y.physical)
        # the way the assembler itself advances its position: one name, read, advanced with `+=`, read again
        B = bus.get_address(a)
        b0 = B.physical
        B += m
        b1 = (B.logical_value, B.physical)
        B += n
        b2 = (B.logical_value, B.physical)
        if (b0, b1, b2) != (A.physical, (got[0], phys[0]), (got[1], phys[1])) or A.logical_value != a:
            out.bad(f"adv:{rom_label}:{rname}:in-place", want_sub, f"A={a:#08x} read, advanced with += {m:#x} and += {n:#x}: offset before {b0}, then (address, offset) "
                    f"{b1} and {b2}; A+m and (A+m)+n give {(got[0], phys[0])} and {(got[1], phys[1])}; A itself now {A.logical_value:#08x}")
            return
    except Exception as e:
        out.bad(f"adv:{rom_label}:{rname}:raised", want_sub, f"{a:#08x}+{m:#x}(+{n:#x}) raised {type(e).__name__}: {e}")
        return
    exp = (model.advance(a, m), model.advance(a, m + n), model.advance(a, m + n), a)
    if got != exp:
        out.bad(f"adv:{rom_label}:{rname}", want_sub,
                f"A={a:#08x} m={m:#x} n={n:#x}: got A+m={got[0]:#08x} (A+m)+n={got[1]:#08x} A+(m+n)={got[2]:#08x} A+0={got[3]:#08x}; "
                f"expected {exp[0]:#08x} {exp[1]:#08x} {exp[2]:#08x} {exp[3]:#08x}")
        return
    if not r.ram:
        ep = (model.physical(a) + m, model.physical(a) + m + n)
        if phys != ep:
            out.bad(f"adv:{rom_label}:{rname}:offset", want_sub, f"A={a:#08x}: offsets after advance {phys} expected {ep}")
        for v in got[:2]:
            if model.range_of(v) is not r or model.kind(v) != "rom":
                out.bad(f"adv:{rom_label}:{rname}:left-range", want_sub, f"A={a:#08x}+...={v:#08x} left its range/window")
    else:
        if phys != (None, None):
            out.bad(f"adv:{rom_label}:ram:offset", want_sub, f"RAM address got offsets {phys}")


def _place_maps(map_src: str, body: str, where: int) -> str:
    """The `.map` lines of a program describe its one bus wherever they are written: on top, after the statements, or around them."""
    if where % 3 == 0 or not map_src:
        return (map_src or "") + body
    lines = map_src.splitlines(keepends=True)
    if where % 3 == 1:
        return body + map_src
    return "".join(lines[:1]) + body + "".join(lines[1:])


def _check_lead(out, model, rom, map_src, lead, a, m, want_sub, where=0):
    """program `[.map ...] <lead>A ; m filler bytes ; label`: the label is A advanced by m"""
    src = f"{lead}0x{a:06x}\n"
    files = None
    if m > 0:
        src += ".incbin 'pad.bin'\n"
        files = {"pad.bin": {"rep": [0x5A, m]}}
    src += "probe_lbl:\n.db 0x42\n"
    src = _place_maps(map_src, src, where)
    res = driver.assemble_mem(src, rom=rom or "low", files=files)
    tag = f"{'umap' if map_src else rom}:lead{'-org' if lead == '*=' else '-reloc'}"
    if not res.accepted:
        out.bad(f"{tag}:rejected", want_sub, f"rejected: {res['status']} {res['exc']} {res.failure_text[:200]}\n{src[:400]}")
        return
    got = dict(res["labels"]).get("probe_lbl")
    exp = model.advance(a, m)
    if got != exp:
        out.bad(f"{tag}:label-after-advance", want_sub, f"label after {lead}{a:#08x} + {m:#x} bytes = {got if got is None else hex(got)}, expected {exp:#08x}\n{src[:400]}")


def _check_leave(out, model, bus, rom_label, a, want_sub):
    """an advance that leaves the mapped range: either it is refused, or the address it produces is the same thing as the
    address built directly from that logical value (translation is a function of the logical address; nothing lives in an
    unmapped bank)"""
    room = model.room(a)
    for n in (room, room + 1, room + 0x7FFF, room + 0x10000):
        try:
            y = bus.get_address(a) + n
            lv, yp, yw = y.logical_value, y.physical, y.writable
        except Exception:
            continue  # refused
        try:
            d = bus.get_address(lv)
            direct = (d.physical, d.writable)
        except Exception:
            out.bad(f"leave:{rom_label}:lands-in-unmapped-bank", want_sub,
                    f"A={a:#08x}+{n:#x} (the mapped range ends after {room:#x} bytes) produced {lv:#08x}, an address that cannot be built directly (unmapped), with offset {yp}")
            return
        if (yp, yw) != direct:
            out.bad(f"leave:{rom_label}:differs-from-direct", want_sub,
                    f"A={a:#08x}+{n:#x} produced {lv:#08x} with (offset, writable) = {(yp, yw)}, but that address built directly has {direct}")
            return


def _incs(model, a, seed):
    r = model.range_of(a)
    room = model.room(a)
    to_end = r.win_hi - (a & 0xFFFF) + 1
    rnd = [(a * 2654435761 + seed * 97 + k * 40503) % 0x30001 for k in range(2)]
    cand = [0, 1, 2, 3, to_end - 1, to_end, to_end + 1, 0x7FFF, 0x8000, 0x8001, 0xFFFF, 0x10000, 0x10001] + rnd
    return [c for c in cand if 0 <= c < room]


def run_case(case) -> Outcome:
    t = case["t"]
    if t in ("xlate", "xlate1", "adv", "adv1"):
        rom = case["rom"]
        model = busmodel.builtin(rom)
        bus = _bus(rom)
    out = Outcome(evals=0, nontrivial=0)
    if t == "xlate":
        bank = case["bank"]
        offs = range(0x10000) if case["all"] else _offsets(bank, case["seed"], 64)
        nt = 0
        counts = {"rom": 0, "rom_out": 0, "ram": 0, "unmapped": 0}
        r = model.lookup.get(bank)
        for off in offs:
            a = (bank << 16) | off
            kind = _check_xlate(out, model, bus, rom, a, {"t": "xlate1", "rom": rom, "a": a})
            counts[kind] += 1
            if kind == "rom" and ((r.mirror) or off - r.win_lo < 2 or r.win_hi - off < 2):
                nt += 1
            elif kind in ("ram", "unmapped") and off in (0, 0xFFFF):
                nt += 1
        # beyond the 24-bit bus (and below 0) nothing is mapped, whatever the low 24 bits look like
        for off in (0x0000, 0x8000, 0xFFFF):
            for hi_part in (0x1000000, 0x2000000, 0xFF000000, -0x1000000):
                a = ((bank << 16) | off) + hi_part
                kind = _check_xlate(out, model, bus, rom, a, {"t": "xlate1", "rom": rom, "a": a})
                counts[kind] += 1
                nt += 1
        # Program.get_physical_address agrees (sampled at the window edges)
        if r is not None and not r.ram:
            from a816.program import Program

            with driver.quiet():
                p = Program()
                p.resolver.rom_type = driver.rom_type(rom)
            for off in (r.win_lo, r.win_hi):
                a = (bank << 16) | off
                try:
                    got = p.get_physical_address(a)
                except Exception as e:
                    got = type(e).__name__
                if got != model.physical(a):
                    out.bad(f"xlate:{rom}:Program.get_physical_address", {"t": "xlate1", "rom": rom, "a": a},
                            f"Program.get_physical_address({a:#08x}) = {got}, expected {model.physical(a):#x}")
        out.evals = len(offs)
        out.nontrivial = nt
        out.labels = [f"{rom}:{k}" for k, v in counts.items() if v]
        if bank in (0x00, 0x7E, 0x80, 0xC0) :
            out.sample = {"translate": f"{rom} bank {bank:#04x}", "offsets_checked": len(offs),
                          "example": [f"{(bank << 16) | 0x8000:#08x}", str(_real_physical(bus, (bank << 16) | 0x8000))]}
        return out
    if t == "xlate1":
        a = case["a"]
        _check_xlate(out, model, bus, rom, a, case)
        out.evals = 1
        return out
    if t == "adv":
        bank = case["bank"]
        r = model.lookup.get(bank)
        if r is None:
            return Outcome(skip="unmapped bank")
        offs = _offsets(bank, case["seed"], 24 if not case["dense"] else 400)
        if case["dense"]:
            offs += list(range(r.win_lo, r.win_lo + 64)) + list(range(r.win_hi - 63, r.win_hi + 1))
        nt = ev = 0
        for off in offs:
            if not (r.win_lo <= off <= r.win_hi):
                continue
            a = (bank << 16) | off
            incs = _incs(model, a, case["seed"])
            for i, m in enumerate(incs):
                n = incs[(i * 7 + 3) % len(incs)]
                if m + n >= model.room(a):
                    n = 0
                _check_adv(out, model, bus, rom, a, m, n, {"t": "adv1", "rom": rom, "a": a, "m": m, "n": n})
                ev += 1
                if m + n > r.win_hi - off or off - r.win_lo < 2 or r.win_hi - off < 2 or r.mirror:
                    nt += 1
            if off in (r.win_lo, r.win_hi) or off == offs[0]:
                _check_leave(out, model, bus, rom, a, {"t": "leave1", "rom": rom, "a": a})
                ev += 1
                nt += 1
        # the same law through a program: the position set by a leading `*=` or a leading `@=` (no *= before it),
        # m filler bytes, then a label
        for off in [o for o in offs if r.win_lo <= o <= r.win_hi][:2]:
            a = (bank << 16) | off
            incs = [m for m in _incs(model, a, case["seed"]) if m <= 0x10001 and m + 1 < model.room(a)]
            m = incs[(off + case["seed"]) % len(incs)] if incs else 0
            for lead in ("*=", "@="):
                if lead == "*=" and r.ram:
                    continue
                _check_lead(out, model, rom, None, lead, a, m, {"t": "lead1", "rom": rom, "lead": lead, "a": a, "m": m})
                ev += 1
                nt += 1
        out.evals, out.nontrivial = ev, nt
        out.labels = [f"adv:{rom}:{r.name}"]
        if bank in (0x00, 0x7E, 0x85, 0xC1):
            a = (bank << 16) | r.win_hi
            if model.room(a) > 3 and not out.violations:
                out.sample = {"advance": f"{rom} {a:#08x}+3", "real": f"{(bus.get_address(a) + 3).logical_value:#08x}",
                              "model": f"{model.advance(a, 3):#08x}"}
        return out
    if t == "leave1":
        _check_leave(out, busmodel.builtin(case["rom"]), _bus(case["rom"]), case["rom"], case["a"], case)
        out.evals, out.nontrivial = 1, 1
        return out
    if t == "lead1":
        _check_lead(out, model_l := busmodel.builtin(case["rom"]), case["rom"], None, case["lead"], case["a"], case["m"], case)
        out.evals, out.nontrivial = 1, 1
        return out
    if t == "adv1":
        _check_adv(out, model, bus, rom, case["a"], case["m"], case["n"], case)
        out.evals = 1
        return out
    if t == "umap":
        return _run_umap(case)
    raise ValueError(t)


def _run_umap(case) -> Outcome:
    specs = case["specs"]
    model = busmodel.usermap(specs)
    out = Outcome(evals=0, nontrivial=True, labels=[f"umap:{case['via']}", f"umap:ranges={len(model.ranges)}"])
    label = "umap:" + case["via"]
    if case["via"] == "api":
        try:
            bus = _install_api(specs)
        except Exception as e:
            return out.bad("umap:api:install-raised", case, f"Bus.map raised {type(e).__name__}: {e}")
        program = None
    else:
        maps, src = _map_directives(specs), ""
        # probe inside an assembled program too: *=A ; n bytes ; label  ->  block offset and label value
        a0, m0, _ = case["probes"][0]
        where = (a0 + m0) % 3  # .map lines on top / after the statements / around them
        files = None
        r0 = model.range_of(a0)
        in_prog = (not r0.ram) and m0 + 1 < model.room(a0)  # the marker byte must not end the mapped range
        if in_prog:
            src += f"*=0x{a0:06x}\n"
            if m0 > 0:
                src += ".incbin 'pad.bin'\n"
                files = {"pad.bin": {"rep": [0x5A, m0]}}
            src += "probe_lbl:\n.db 0x42\n"
            out.labels.append(f"umap:maps-{('top', 'after', 'around')[where]}")
        src = _place_maps(maps, src, where)
        res = driver.assemble_mem(src, files=files, keep_program=True)
        program = res.get("program")
        if not res.accepted:
            return out.bad("umap:directive:rejected", case, f"program with .map rejected: {res['status']} {res['exc']} {res.failure_text[:300]}\n{src}")
        bus = program.resolver.get_bus()
        if in_prog:
            labels = dict(res["labels"])
            exp_label = model.advance(a0, m0)
            if labels.get("probe_lbl") != exp_label:
                out.bad("umap:directive:label-after-advance", case,
                        f"label after *={a0:#08x} + {m0:#x} bytes = {labels.get('probe_lbl')}, expected {exp_label:#08x}\n{src}")
            flat = driver.image(res["blocks"])
            exp_off = model.physical(a0) + m0
            if flat.get(exp_off) != 0x42 or len(flat) != m0 + 1 or min(flat) != model.physical(a0):
                out.bad("umap:directive:block-offset", case,
                        f"bytes not at the mapped offset: expected first offset {model.physical(a0):#x}, marker at {exp_off:#x}; "
                        f"got offsets {min(flat):#x}..{max(flat):#x} ({len(flat)} bytes)\n{src}")
            _check_lead(out, model, None, maps, "@=", a0, m0, case, where + 1)
            try:
                gp = program.get_physical_address(a0)
            except Exception as e:
                gp = type(e).__name__
            if gp != model.physical(a0):
                out.bad("umap:directive:get_physical_address", case, f"Program.get_physical_address({a0:#08x})={gp}")
    ev = 0
    for a, m, n in case["probes"]:
        _check_xlate(out, model, bus, label, a, case)
        _check_adv(out, model, bus, label, a, m, n if m + n < model.room(a) else 0, case)
        _check_leave(out, model, bus, label, a, case)
        ev += 3
        r = model.range_of(a)
        if r.mirror:
            out.labels.append("umap:mirror-probe")
        if m > r.win_hi - (a & 0xFFFF) and not r.ram:
            out.labels.append("umap:bank-crossing")
    for b in case["unmapped"]:
        real = _real_physical(bus, (b << 16) | 0x8000)
        ev += 1
        if real[0] != "rej":
            out.bad(f"{label}:unmapped-accepted", case, f"bank {b:#04x} is not mapped by {specs} but translated to {real}")
    out.evals = ev
    out.sample = {"maps": _map_directives(specs).splitlines(), "via": case["via"],
                  "probes": [[f"{a:#08x}", m, n] for a, m, n in case["probes"]]}
    return out


ESSENTIAL = {}
