#!/venv/bin/python
"""Single entry point:  run.py C07 --tier quick|thorough [--replay FILE]

Re-executes itself under /venv/bin/python with PYTHONHASHSEED=0 and PYTHONDONTWRITEBYTECODE=1 so that
every run is a pure function of /repo's working tree and VERIF_SEED.
"""
import os
import sys

HERE = os.path.dirname(os.path.abspath(__file__))


def _reexec() -> None:
    want = {"PYTHONHASHSEED": "0", "PYTHONDONTWRITEBYTECODE": "1"}
    py = "/venv/bin/python"
    need = any(os.environ.get(k) != v for k, v in want.items())
    if os.path.exists(py) and os.path.realpath(sys.executable) != os.path.realpath(py) and not os.environ.get("A816_VERIF_NOREEXEC"):
        need = True
    else:
        py = sys.executable
    if need and not os.environ.get("A816_VERIF_REEXEC"):
        env = dict(os.environ, **want)
        env["A816_VERIF_REEXEC"] = "1"
        deps = os.path.join(HERE, ".deps")
        if os.path.isdir(deps):
            env["PYTHONPATH"] = deps + os.pathsep + env.get("PYTHONPATH", "")
        os.execve(py, [py, os.path.abspath(__file__)] + sys.argv[1:], env)


if __name__ == "__main__":
    _reexec()
    sys.path.insert(0, HERE)
    os.chdir(HERE)
    from vlib import runner

    try:
        rc = runner.main(sys.argv[1:])
    except SystemExit:
        raise
    except BaseException:
        import traceback

        traceback.print_exc()
        print("HARNESS-ERROR uncaught exception in runner")
        rc = 2
    sys.stdout.flush()
    sys.exit(rc)
