.macro m(a) {
 lda.w a,x
}
m(1)
.if 1 {
.for i := 0, 2 {
.db i
}
} else {
}
