nop
/* c */
.db 1, 2
