    php
    pha
    phx
    pea.w return_addr-1
    pea.w source & 0xFFFF
    pea.w  0x00FF & (source >> 16)
    pea.w vramptr
    pea.w count
    pea.w mode
    jmp.l dma_transfer_to_vram
return_addr:
    plx
    pla
    plp
    TAX            ; using math multiplication
    LDA.L vwf_shift_table,X
