#!/venv/bin/python
"""atheris target for C13: arbitrary bytes as an IPS file given to `.include_ips`, differential against
the strict reader: well formed (and no record at the EOF offset, records clear of the host bytes at 0x8000) => same effect;
malformed => rejected."""
import os, sys

HERE = os.path.dirname(os.path.dirname(os.path.abspath(__file__)))
sys.path.insert(0, HERE)
for deps in (os.path.join(HERE, ".deps"), "/verif/.deps"):
    if os.path.isdir(deps):
        sys.path.insert(0, deps)
        break
import atheris  # noqa: E402

from vlib import driver  # noqa: E402
from vlib.model import ips  # noqa: E402

driver.init_worker()
with atheris.instrument_imports(include=["a816"]):
    import a816.parse.nodes  # noqa: E402,F401
    from a816.program import Program  # noqa: E402

OUT = os.environ.get("FUZZ_OUT", "")
SRC = "*=0x018000\n.db 1\n.include_ips 'p.ips', 0\n.db 2\n"


def one(data: bytes):
    if not data.startswith(b"PATCH"):
        data = b"PATCH" + data  # reach the record parser; the header itself is covered by the enumerated cases
    try:
        recs = ips.parse(data)
        good = True
    except ips.IpsError:
        good = False
        try:
            ips.parse(data, strict_tail=False)
            return  # well formed up to EOF with trailing bytes: not in the generated domain (some tools append a truncation length)
        except ips.IpsError:
            pass
    if good and any(o == ips.EOF_OFFSET or (o < 0x8100 and o + len(d) > 0x7F00) or len(d) == 0 for o, d, _ in recs):
        return
    res = driver.assemble_mem(SRC, files={"p.ips": data})
    bad = None
    if good:
        if not res.accepted:
            bad = f"well-formed rejected: {res['exc']} {res.failure_text[:80]}"
        else:
            calls = [b for b in res["blocks"] if b != (0x8000, b"\x01\x02")]
            if ips.normalise(calls) != ips.normalise([(o, d) for o, d, _ in recs]):
                bad = "effect differs"
    elif res.accepted:
        bad = "malformed accepted"
    if bad:
        if OUT:
            with open(OUT, "a") as f:
                f.write(data.hex() + "\n")
        print("FUZZ-VIOLATION", bad, data.hex()[:400], flush=True)
        os._exit(1)


atheris.Setup(sys.argv, one)
atheris.Fuzz()
