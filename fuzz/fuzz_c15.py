#!/venv/bin/python
"""atheris target for C15: scan + parse (+ bounded assembly) of arbitrary text under the deterministic
step budget.  The semantic oracle (budget overrun) is inside the target.

usage: fuzz_c15.py [libFuzzer args]   e.g. -runs=20000 -seed=1 -max_len=256 <corpus dirs>
Prints `FUZZ-VIOLATION <hex of input>` and exits 1 on a budget overrun.
"""
import os, sys

HERE = os.path.dirname(os.path.dirname(os.path.abspath(__file__)))
sys.path.insert(0, HERE)
for deps in (os.path.join(HERE, ".deps"), "/verif/.deps"):
    if os.path.isdir(deps):
        sys.path.insert(0, deps)
        break
import atheris  # noqa: E402

from vlib import driver, watchdog  # noqa: E402

driver.init_worker()
with atheris.instrument_imports(include=["a816", "script"]):
    from a816.parse.mzparser import MZParser  # noqa: E402
    from a816.program import Program  # noqa: E402

from checks import c15  # noqa: E402

OUT = os.environ.get("FUZZ_OUT", "")


def one(data: bytes):
    try:
        text = data.decode("utf-8", "replace")
    except Exception:
        return
    from vlib.runner import Outcome

    out = Outcome(evals=0)
    c15.check_text(out, text, {"t": "text", "text": text})
    if out.violations:
        if OUT:
            with open(OUT, "a") as f:
                f.write(data.hex() + "\n")
        print("FUZZ-VIOLATION", data.hex()[:400], flush=True)
        os._exit(1)


atheris.Setup(sys.argv, one)
atheris.Fuzz()
