#!/venv/bin/python
"""Sensitivity helper: plant a fault in a scratch copy of /repo (outside /repo and /verif), run checks
against it via A816_REPO, report whether they go red, delete the copy.

usage: tools/sens.py <PROP[,PROP..]> <relative file> <old> <new> [--tier quick] [--count N]
       tools/sens.py <PROP[,PROP..]> --patch file.diff
"""
import os, shutil, subprocess, sys, tempfile

def main():
    args = sys.argv[1:]
    props = args[0].split(",")
    tier = "quick"
    if "--tier" in args:
        i = args.index("--tier"); tier = args[i+1]; del args[i:i+2]
    tmp = tempfile.mkdtemp(prefix="a816sens_")
    dst = os.path.join(tmp, "repo")
    try:
        shutil.copytree("/repo", dst, ignore=shutil.ignore_patterns(".git", "__pycache__", ".hatch", "*.pyc"))
        if args[1] == "--patch":
            r = subprocess.run(["patch", "-p1", "-d", dst, "-i", os.path.abspath(args[2])], capture_output=True, text=True)
            if r.returncode != 0:
                print("PATCH FAILED", r.stdout, r.stderr); return 3
        else:
            rel, old, new = args[1], args[2], args[3]
            p = os.path.join(dst, rel)
            s = open(p).read()
            if s.count(old) < 1:
                print("OLD STRING NOT FOUND"); return 3
            s = s.replace(old, new, 1)
            open(p, "w").write(s)
        worst = 0
        for prop in props:
            env = dict(os.environ, A816_REPO=dst, VERIF_OUT=tmp)
            r = subprocess.run(["/verif/run.py", prop, "--tier", tier, "--no-shrink"], env=env, capture_output=True, text=True)
            lines = [l for l in r.stdout.splitlines() if l.startswith(("VIOLATION", "---", "HARNESS", prop))]
            print(f"[{prop}] rc={r.returncode}")
            for l in lines[:12]:
                print("   ", l[:220])
            if r.returncode == 2:
                print(r.stdout[-1500:], r.stderr[-1500:])
            worst = max(worst, r.returncode)
        # restore evidence produced against the scratch copy? evidence is rewritten by the next real run.
        return 0
    finally:
        shutil.rmtree(tmp, ignore_errors=True)

sys.exit(main())
