#!/venv/bin/python
"""Freezes checks/supported_set.json: the ISA-defined (mnemonic, prefix, inner, outer, width) cells that the
tree assembles with the ISA's opcode.  Run once on a reviewed tree; the file is committed and reviewed."""
import json, os, sys
HERE = os.path.dirname(os.path.dirname(os.path.abspath(__file__)))
sys.path.insert(0, HERE)
from vlib import driver
driver.init_worker()
from checks import c01
cells = c01.build_supported()
json.dump({"_comment": "frozen supported set (see DESIGN.md §2.4); regenerate only deliberately with tools/gen_supported.py", "cells": [list(c) for c in cells]},
          open(c01.SUPPORTED_PATH, "w"), indent=0)
print(len(cells), "cells")
