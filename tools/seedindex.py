#!/venv/bin/python
import json, os
root = "/verif/seeded"
rows = []
for d in sorted(os.listdir(root)):
    mp = os.path.join(root, d, "meta.json")
    if os.path.exists(mp):
        m = json.load(open(mp))
        caught = m.get("caught_by") or []
        sigs = []
        for p in caught:
            sigs += (m.get("checks", {}).get(p, {}).get("buckets") or [])[:2]
        rows.append(f"| {d} | {m.get('property')} | {(m.get('summary') or '')[:150].replace('|','/')} | {(m.get('needs') or '')[:150].replace('|','/')} | {', '.join(caught) or (('out of domain: ' + m['out_of_domain'][:60].replace('|','/')) if m.get('out_of_domain') else 'MISSED')} | {'; '.join(sigs)[:120]} |")
open(os.path.join(root, "INDEX.md"), "w").write("# Seeded changes\n\n| id | property | change | needs | caught by (quick) | signatures |\n|---|---|---|---|---|---|\n" + "\n".join(rows) + "\n")
print("\n".join(rows))
