#!/venv/bin/python
"""Confirms a seeded change and runs the checks against it (scratch copy outside /repo and /verif, removed afterwards).

usage: tools/seedcheck.py <dir with patch.diff, demo.py, meta.json> [--props C01,C02 | --all] [--tier quick] [--keep <seeded id>]
Confirms: patch applies; test suite passes with it; demo fails with it and passes without it.
"""
import json, os, shutil, subprocess, sys, tempfile

PY = "/venv/bin/python"
ALL = [f"C{i:02d}" for i in range(1, 21)]


def run(cmd, cwd=None, env=None, timeout=1800):
    return subprocess.run(cmd, cwd=cwd, env=env, capture_output=True, text=True, timeout=timeout)


def main():
    args = sys.argv[1:]
    d = os.path.abspath(args[0])
    props, tier, keep = None, "quick", None
    if "--props" in args:
        props = args[args.index("--props") + 1].split(",")
    if "--all" in args:
        props = ALL
    if "--tier" in args:
        tier = args[args.index("--tier") + 1]
    if "--keep" in args:
        keep = args[args.index("--keep") + 1]
    meta = json.load(open(os.path.join(d, "meta.json")))
    if props is None:
        props = [meta["property"]]
    tmp = tempfile.mkdtemp(prefix="a816seed_")
    report = {"dir": d, "property": meta.get("property"), "summary": meta.get("summary"), "needs": meta.get("needs")}
    try:
        clean, mut = os.path.join(tmp, "clean"), os.path.join(tmp, "mut")
        ign = shutil.ignore_patterns(".git", "__pycache__", "*.pyc", ".pytest_cache")
        shutil.copytree("/repo", clean, ignore=ign)
        shutil.copytree("/repo", mut, ignore=ign)
        r = run(["patch", "-p1", "-i", os.path.join(d, "patch.diff")], cwd=mut)
        report["patch_applies"] = r.returncode == 0
        if r.returncode != 0:
            print(json.dumps(report, indent=1)); print(r.stdout, r.stderr); return 1
        env = dict(os.environ, PYTHONDONTWRITEBYTECODE="1")
        r = run([PY, "-m", "pytest", "-q", "-p", "no:cacheprovider", "-x"], cwd=mut, env=env)
        report["tests_pass_with_change"] = r.returncode == 0
        report["tests_tail"] = r.stdout.strip().splitlines()[-1:] 
        r1 = run([PY, os.path.join(d, "demo.py")], cwd=mut, env=env, timeout=300)
        r0 = run([PY, os.path.join(d, "demo.py")], cwd=clean, env=env, timeout=300)
        report["demo_fails_with_change"] = r1.returncode != 0
        report["demo_passes_without"] = r0.returncode == 0
        report["demo_output_with_change"] = (r1.stdout + r1.stderr)[-400:]
        caught = {}
        for p in props:
            e = dict(os.environ, A816_REPO=mut, VERIF_OUT=tmp)
            r = run(["/verif/run.py", p, "--tier", tier, "--no-shrink"], env=e, timeout=3600)
            sigs = [l.split("[", 1)[1].split("]")[0] for l in r.stdout.splitlines() if l.startswith("--- ") and "violation [" in l]
            caught[p] = {"rc": r.returncode, "buckets": sigs[:6]}
            if r.returncode == 2:
                caught[p]["stderr"] = (r.stdout + r.stderr)[-500:]
        report["checks"] = caught
        report["caught_by"] = [p for p, v in caught.items() if v["rc"] == 1]
        print(json.dumps(report, indent=1))
        if keep:
            dst = os.path.join("/verif/seeded", keep)
            os.makedirs(dst, exist_ok=True)
            for fn in ("patch.diff", "demo.py"):
                shutil.copy(os.path.join(d, fn), os.path.join(dst, fn))
            meta_out = {"property": meta.get("property"), "summary": meta.get("summary"), "needs": meta.get("needs"), "files": meta.get("files"),
                        "confirmed": {k: report[k] for k in ("patch_applies", "tests_pass_with_change", "demo_fails_with_change", "demo_passes_without")},
                        "ran": f"tools/seedcheck.py (scratch copies of /repo under /tmp, pytest, demo.py with/without, run.py <ID> --tier {tier} with A816_REPO=<patched copy>)",
                        "caught_by": report["caught_by"], "checks": caught}
            json.dump(meta_out, open(os.path.join(dst, "meta.json"), "w"), indent=1)
        return 0
    finally:
        shutil.rmtree(tmp, ignore_errors=True)


sys.exit(main())
