#!/venv/bin/python
"""Systematic mutation run: one AST-level mutation at a time in a scratch copy of /repo; mutants that the repository's
own test suite kills are dropped (the brief asks for changes that still pass the tests); the rest are run against the
relevant quick checks.  Survivors (no check goes red) are written to <out>/survivors.jsonl for triage: each is either an
equivalent mutant or a gap in the checks.

usage: tools/mutate.py --out DIR [--per-file N] [--seed S] [--kinds del] [--files a816/cpu/mapping.py,...] [--recheck survivors.jsonl]
"""
import ast, copy, json, os, random, shutil, subprocess, sys, tempfile, time

PY = "/venv/bin/python"
FILES = {
    "a816/cpu/mapping.py": ["C04", "C03", "C20", "C05", "C07"],
    "a816/cpu/cpu_65c816.py": ["C01", "C05", "C20", "C02", "C03"],
    "a816/writers.py": ["C11", "C12"],
    "a816/program.py": ["C03", "C12", "C14", "C13", "C02"],
    "a816/symbols.py": ["C08", "C03", "C04", "C05", "C20", "C09", "C10", "C02", "C18", "C19", "C12"],
    "a816/cli.py": ["C12", "C14"],
    "a816/parse/codegen.py": ["C09", "C10", "C08", "C03", "C02", "C13"],
    "a816/parse/nodes.py": ["C07", "C03", "C02", "C13", "C18", "C17", "C09"],
    "a816/parse/ast/expression.py": ["C06", "C01"],
    "a816/parse/scanner.py": ["C17", "C16", "C15", "C03"],
    "a816/parse/scanner_states.py": ["C16", "C15", "C17", "C01", "C06", "C03", "C14"],
    "a816/parse/parser_states.py": ["C01", "C16", "C09", "C10", "C03", "C06", "C14", "C15", "C17", "C13"],
    "a816/parse/parser.py": ["C15", "C16", "C03", "C14"],
    "a816/parse/mzparser.py": ["C14", "C17", "C03"],
    "script/__init__.py": ["C18"],
    "script/formulas.py": ["C20"],
}
CMP = {ast.Lt: ast.LtE, ast.LtE: ast.Lt, ast.Gt: ast.GtE, ast.GtE: ast.Gt, ast.Eq: ast.NotEq, ast.NotEq: ast.Eq, ast.Is: ast.IsNot, ast.IsNot: ast.Is, ast.In: ast.NotIn, ast.NotIn: ast.In}
BIN = {ast.Add: ast.Sub, ast.Sub: ast.Add, ast.Mult: ast.Add, ast.LShift: ast.RShift, ast.RShift: ast.LShift, ast.BitAnd: ast.BitOr, ast.BitOr: ast.BitAnd, ast.FloorDiv: ast.Mult, ast.Mod: ast.FloorDiv}


def sites(tree):
    out = []
    for node in ast.walk(tree):
        if isinstance(node, ast.Compare):
            for i, op in enumerate(node.ops):
                if type(op) in CMP:
                    out.append(("cmp", node, i))
        elif isinstance(node, ast.BinOp) and type(node.op) in BIN:
            out.append(("bin", node, None))
        elif isinstance(node, ast.BoolOp):
            out.append(("bool", node, None))
        elif isinstance(node, ast.UnaryOp) and isinstance(node.op, ast.Not):
            out.append(("not", node, None))
        elif isinstance(node, ast.Constant) and isinstance(node.value, bool):
            out.append(("boolconst", node, None))
        elif isinstance(node, ast.Constant) and isinstance(node.value, int) and not isinstance(node.value, bool):
            out.append(("int", node, None))
        elif isinstance(node, ast.If):
            out.append(("ifneg", node, None))
        elif isinstance(node, ast.Expr) and isinstance(node.value, ast.Call):
            out.append(("delcall", node, None))
        elif isinstance(node, ast.AugAssign):
            out.append(("aug", node, None))
        # clean-up shaped mutations: something that looks redundant is removed
        if isinstance(node, ast.Assign) or (isinstance(node, ast.AnnAssign) and node.value is not None):
            out.append(("delassign", node, None))
        if isinstance(node, ast.If):
            out.append(("delif" if not node.orelse else "keepelse", node, None))
            if node.orelse:
                out.append(("keepbody", node, None))
            for sub in node.body + node.orelse:
                if isinstance(sub, (ast.Return, ast.Raise, ast.Continue, ast.Break)):
                    out.append(("deljump", sub, None))
        if isinstance(node, ast.Try) and node.finalbody:
            out.append(("delfinally", node, None))
        if isinstance(node, ast.Call) and not node.keywords:
            if isinstance(node.func, ast.Name) and node.func.id in UNWRAP and len(node.args) == 1 and not isinstance(node.args[0], ast.Starred):
                out.append(("unwrap", node, None))
            elif isinstance(node.func, ast.Attribute) and node.func.attr in UNWRAP_METHODS and not node.args:
                out.append(("unwrapm", node, None))
    return out


UNWRAP = {"sorted", "list", "dict", "set", "tuple", "int", "bytes", "str", "abs", "reversed", "copy", "deepcopy", "bool"}
UNWRAP_METHODS = {"lower", "upper", "strip", "lstrip", "rstrip", "copy"}
DEL_KINDS = {"delcall", "delassign", "delif", "keepelse", "keepbody", "deljump", "delfinally", "unwrap", "unwrapm"}


def _become(node, other):
    node.__class__ = other.__class__
    for k in list(node.__dict__):
        if k not in ("lineno", "col_offset", "end_lineno", "end_col_offset"):
            del node.__dict__[k]
    for k, v in other.__dict__.items():
        if k not in ("lineno", "col_offset", "end_lineno", "end_col_offset"):
            node.__dict__[k] = v


def apply(kind, node, idx):
    if kind == "cmp":
        node.ops[idx] = CMP[type(node.ops[idx])]()
        return f"compare -> {type(node.ops[idx]).__name__}"
    if kind == "bin":
        old = type(node.op).__name__
        node.op = BIN[type(node.op)]()
        return f"{old} -> {type(node.op).__name__}"
    if kind == "bool":
        node.op = ast.Or() if isinstance(node.op, ast.And) else ast.And()
        return "and <-> or"
    if kind == "not":
        node.op = ast.UAdd() if False else node.op
        # replace `not x` by `x`: done by the caller through attribute surgery
        node.__class__ = ast.BoolOp
        node.op = ast.And()
        node.values = [node.operand]
        return "not x -> x"
    if kind == "boolconst":
        node.value = not node.value
        return f"{not node.value} -> {node.value}"
    if kind == "int":
        old = node.value
        node.value = old + 1 if old >= 0 else old - 1
        return f"{old:#x} -> {node.value:#x}"
    if kind == "ifneg":
        node.test = ast.UnaryOp(op=ast.Not(), operand=node.test)
        return "if c -> if not c"
    if kind == "delcall":
        node.value = ast.Constant(value=None)
        return "call statement removed"
    if kind in ("delassign", "delif", "deljump"):
        what = type(node).__name__
        _become(node, ast.Pass())
        return f"{what} statement removed"
    if kind == "keepelse":
        node.test = ast.Constant(value=False)
        return "if/else -> else branch only"
    if kind == "keepbody":
        node.test = ast.Constant(value=True)
        return "if/else -> first branch only"
    if kind == "delfinally":
        node.finalbody = [ast.Pass()]
        return "finally body removed"
    if kind == "unwrap":
        name = node.func.id
        _become(node, node.args[0])
        return f"{name}(x) -> x"
    if kind == "unwrapm":
        name = node.func.attr
        _become(node, node.func.value)
        return f"x.{name}() -> x"
    if kind == "aug":
        old = type(node.op).__name__
        node.op = ast.Sub() if isinstance(node.op, ast.Add) else ast.Add()
        return f"aug {old} flipped"


def evaluate(rel, src, pick):
    """apply site number `pick` of file `rel` in a scratch copy, run the tests and the relevant checks -> record"""
    tree = ast.parse(src)
    kind, node, idx = sites(tree)[pick]
    line = getattr(node, "lineno", 0)
    try:
        desc = apply(kind, node, idx)
        ast.fix_missing_locations(tree)
        new_src = ast.unparse(tree)
    except Exception:
        return None
    tmp = tempfile.mkdtemp(prefix="a816mut_")
    rec = {"file": rel, "line": line, "kind": kind, "pick": pick, "desc": desc, "source_line": src.splitlines()[line - 1].strip() if line else ""}
    try:
        dst = os.path.join(tmp, "repo")
        shutil.copytree("/repo", dst, ignore=shutil.ignore_patterns(".git", "__pycache__", "*.pyc", ".pytest_cache"))
        open(os.path.join(dst, rel), "w").write(new_src)
        env = dict(os.environ, PYTHONDONTWRITEBYTECODE="1")
        try:
            r = subprocess.run([PY, "-m", "pytest", "-q", "-x", "-p", "no:cacheprovider", "--timeout=120"], cwd=dst, env=env, capture_output=True, text=True, timeout=600)
            tests_ok = r.returncode == 0
        except subprocess.TimeoutExpired:
            tests_ok = False
        rec["tests_pass"] = tests_ok
        if not tests_ok:
            rec["result"] = "killed-by-tests"
            return rec
        rec["result"] = "survived"
        rec["inconclusive"] = []
        for chk in FILES[rel]:
            e2 = dict(os.environ, A816_REPO=dst, VERIF_OUT=tmp, VERIF_CASE_TIMEOUT="120")
            try:
                r = subprocess.run([os.path.join(os.path.dirname(os.path.dirname(os.path.abspath(__file__))), "run.py"), chk, "--tier", "quick", "--no-shrink"],
                                   env=e2, capture_output=True, text=True, timeout=1500)
                rc = r.returncode
                tail = r.stdout.strip().splitlines()[-1:] if r.stdout.strip() else []
            except subprocess.TimeoutExpired:
                rc, tail = 3, ["timeout"]
            if tail and "INCONCLUSIVE" in tail[0]:
                rec["inconclusive"].append(chk)  # part of that check's cases hit the wall-clock backstop: not a clean pass
            if rc != 0:
                rec["result"] = f"caught-by-{chk}" if rc == 1 else f"harness-error-{chk}" if rc == 2 else f"timeout-{chk}"
                rec["tail"] = tail
                break
        if rec["result"] == "survived" and rec["inconclusive"]:
            rec["result"] = "survived-inconclusive"
        return rec
    finally:
        shutil.rmtree(tmp, ignore_errors=True)


def main():
    args = sys.argv[1:]
    out = args[args.index("--out") + 1]
    per_file = int(args[args.index("--per-file") + 1]) if "--per-file" in args else 10
    seed = int(args[args.index("--seed") + 1]) if "--seed" in args else 1
    files = args[args.index("--files") + 1].split(",") if "--files" in args else list(FILES)
    os.makedirs(out, exist_ok=True)
    if "--recheck" in args:
        # re-evaluate the mutants listed in a survivors file (same file / line / kind / description)
        todo = [json.loads(l) for l in open(args[args.index("--recheck") + 1])]
        with open(os.path.join(out, "recheck.jsonl"), "a") as log:
            for t in todo:
                src = open(os.path.join("/repo", t["file"])).read()
                for pick, (kind, node, idx) in enumerate(sites(ast.parse(src))):
                    if kind != t["kind"] or getattr(node, "lineno", 0) != t["line"]:
                        continue
                    rec = evaluate(t["file"], src, pick)
                    if rec is None or rec["desc"] != t["desc"]:
                        continue
                    log.write(json.dumps(rec) + "\n"); log.flush()
                    print(rec["result"], rec["file"], rec["line"], rec["desc"], "|", rec["source_line"][:80], flush=True)
        return
    rng = random.Random(seed)
    only_del = "--kinds" in args and args[args.index("--kinds") + 1] == "del"
    log = open(os.path.join(out, "log.jsonl"), "a")
    surv = open(os.path.join(out, "survivors.jsonl"), "a")
    for rel in files:
        src = open(os.path.join("/repo", rel)).read()
        all_sites = sites(ast.parse(src))
        pool = [i for i, (k, _, _) in enumerate(all_sites) if not only_del or k in DEL_KINDS]
        picks = rng.sample(pool, min(per_file, len(pool)))
        for pick in picks:
            rec = evaluate(rel, src, pick)
            if rec is None:
                continue
            log.write(json.dumps(rec) + "\n"); log.flush()
            if rec["result"].startswith(("survived", "harness", "timeout")):
                surv.write(json.dumps(rec) + "\n"); surv.flush()
            print(rec["result"], rel, rec["line"], rec["desc"], "|", rec["source_line"][:80], flush=True)


main()
