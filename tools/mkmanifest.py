#!/venv/bin/python
"""Regenerates MANIFEST.json from the metadata of the registered check modules."""
import importlib, json, os, sys
HERE = os.path.dirname(os.path.dirname(os.path.abspath(__file__)))
sys.path.insert(0, HERE)
os.environ.setdefault("PYTHONDONTWRITEBYTECODE", "1")
props = [json.loads(l)["id"] for l in open(os.path.join(HERE, "properties.jsonl"))]
NA_FILE = os.path.join(HERE, "not_applicable.json")
na = json.load(open(NA_FILE)) if os.path.exists(NA_FILE) else {}
checks, not_app = [], []
for pid in props:
    path = os.path.join(HERE, "checks", pid.lower() + ".py")
    if pid in na or not os.path.exists(path):
        not_app.append({"property_id": pid, "reason": na.get(pid, "check not built yet (work in progress); will be decided by generated-input search as described in DESIGN.md")})
        continue
    m = importlib.import_module("checks." + pid.lower())
    checks.append({
        "property_id": pid,
        "quick_cmd": f"/venv/bin/python run.py {pid} --tier quick",
        "thorough_cmd": f"/venv/bin/python run.py {pid} --tier thorough",
        "evidence_file": f"/verif/evidence/{pid}.json",
        "replay_cmd_template": f"/venv/bin/python run.py {pid} --replay {{path}}",
        "engine": "a816-pbt",
        "level_claimed": {"category": m.LEVEL, "text": m.LEVEL_TEXT, "design_ref": m.DESIGN_REF},
        "level_note": m.LEVEL_NOTE,
        "technique": m.TECHNIQUE,
    })
manifest = {
    "version": 1,
    "setup_cmd": "sh /verif/setup.sh",
    "hooks": {
        "guard": "A816_VERIF",
        "enable": "no source hooks are needed: checks import /repo's working tree directly and observe it through public entry points (Writer protocol, Resolver.get_all_labels, run-time wrapping from the harness side); the guard name is reserved and unused",
        "baseline_off_cmd": "cd /repo && /venv/bin/python -m pytest -ra -q -p no:cacheprovider --timeout=900 --continue-on-collection-errors",
        "source_commits": [],
        "add_only": True,
    },
    "engines": [{
        "name": "a816-pbt",
        "path": "/verif/run.py",
        "serves_properties": [c["property_id"] for c in checks],
        "kind_free_text": "property-based testing / fuzzing: exhaustive enumeration of finite sub-domains + Hypothesis strategies (stateful machines for histories) + atheris targets, explicit oracles (independent models, metamorphic twins), collect-then-shrink, JSON replays",
    }],
    "checks": checks,
    "notes": "All checks: `run.py <ID> --tier quick|thorough`; VERIF_SEED selects the Hypothesis seed; replays in /verif/replays/<ID>/ ; regress/<ID>/*.json are replayed first on every run; known_findings.json lists open findings and fixed: lines.",
    "not_applicable": not_app,
}
json.dump(manifest, open(os.path.join(HERE, "MANIFEST.json"), "w"), indent=1)
print("checks:", [c["property_id"] for c in checks], "n/a:", [n["property_id"] for n in not_app])
