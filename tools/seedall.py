#!/venv/bin/python
"""Re-runs every kept seeded change against the checks recorded as catching it (and its own property's check);
prints those that are no longer caught."""
import json, os, subprocess, sys
root = "/verif/seeded"
bad = []
only = [a for a in sys.argv[1:] if not a.startswith("--")]
for d in sorted(os.listdir(root)):
    mp = os.path.join(root, d, "meta.json")
    if not os.path.exists(mp) or (only and d not in only):
        continue
    m = json.load(open(mp))
    if m.get("out_of_domain"):
        print(d, "out of domain:", m["out_of_domain"][:80], flush=True)
        continue
    props = sorted(set([m["property"]] + (m.get("caught_by") or [])))
    r = subprocess.run(["/verif/tools/seedcheck.py", os.path.join(root, d), "--props", ",".join(props)], capture_output=True, text=True, env=dict(os.environ, VERIF_CASE_TIMEOUT="60"))
    try:
        rep = json.loads(r.stdout)
    except Exception:
        print(d, "UNPARSEABLE", r.stdout[-300:], r.stderr[-300:]); bad.append(d); continue
    ok = rep.get("patch_applies") and rep.get("tests_pass_with_change") and rep.get("demo_fails_with_change") and rep.get("demo_passes_without")
    caught = rep.get("caught_by") or []
    print(d, "confirmed" if ok else "NOT-CONFIRMED", "caught by", caught, "" if m["property"] in caught else f"(own check {m['property']} quiet)", flush=True)
    if not caught or not ok:
        bad.append(d)
    elif "--update" in sys.argv and sorted(caught) != sorted(m.get("caught_by") or []):
        # keep the union: a check that was quiet this time under load may still be recorded from a calmer run
        m["caught_by"] = sorted(set(caught) | set(c for c in (m.get("caught_by") or []) if c in caught or c != m["property"]))
        json.dump(m, open(mp, "w"), indent=1)
print("PROBLEMS:", bad)
