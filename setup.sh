#!/bin/sh
# Offline setup: make sure hypothesis is importable by /venv/bin/python and atheris is in /verif/.deps.
set -e
cd /verif
/venv/bin/python -c "import hypothesis" 2>/dev/null || /venv/bin/pip install --no-index --find-links /opt/veriftools/wheels hypothesis
if ! PYTHONPATH=/verif/.deps /venv/bin/python -c "import atheris" 2>/dev/null; then
  /venv/bin/pip install --no-index --find-links /opt/veriftools/wheels --target /verif/.deps atheris >/dev/null 2>&1 || echo "atheris not installable (fuzz targets will be skipped)"
fi
/venv/bin/python -c "import hypothesis; print('hypothesis', hypothesis.__version__)"
